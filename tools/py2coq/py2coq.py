#!/usr/bin/env python3
"""py2coq: fail-closed translator from the Python subset used by hpack to typed,
shallow Gallina over the combinators of HV.Prelude.Py.

Usage:  py2coq.py <src-dir (…/src/hpack)> <out-dir (…/coq/Gen)>

Writes GData.v (module- and class-level constants, evaluated from their defining
expressions), GInt.v, GTable.v, GHuff.v (function bodies), GDecoder.v, GEncoder.v
(_unicode_if_needed and the methods of hpack.Decoder / hpack.Encoder), GInit.v (the
__init__ of HeaderTable, Decoder, Encoder: the record each one builds), GApi.v
(Encoder.encode, _to_bytes, _dict_to_iterable, whose arguments are dynamically typed:
translated under the explicit typed view documented at VIEW_PARAMS below) and
status.json (per definition: "translated" or "unsupported: <construct at line>").  Anything
outside the supported subset makes *that definition* unsupported; nothing is
guessed.  Docstrings, comments, annotations (beyond the types they give),
``log.*`` calls and exception messages are dropped, except that integer fields
of formatted messages are kept as ``py_format_d`` (they can raise).

Scheme (DESIGN.md 5.1): statement lists in continuation-passing style; locals
rebound functionally; a loop's state is the tuple of variables assigned in its
body that exist before it (plus ``self`` for a mutating method); every exit of
a loop carries that state; ``self`` is a record threaded like a variable.

Auxiliary definitions (a helper function of a module, a helper method of a translated
class, that the fixed list of definitions does not name): translated like the others
(as a plain value when it cannot raise, else as an outcome), at their first use, and
bound by ``let <name> := fun ... => ... in`` at the head of every definition that
uses them -- no new top-level name, no new file, and the text of a definition from
which a helper was extracted differs from the old one by beta/zeta only (class Helper).

Normalisations (so that equivalent spellings give the same text): a local that is only a
name for an attribute whose binding is fixed at construction is replaced by the
attribute (inline_attribute_names: hoisted attribute reads, aliases of the objects held
by self -- the alias and the attribute are the same object, so this is exact also for
what is done THROUGH the alias); the parameters of a helper whose annotation is outside
the annotation language take the typed view of the arguments at its calls.

Objects held by an object (``self.header_table``): the field is a nested record;
a mutating call on it returns its new state, which is stored back into ``self``
also when the call raised (``nbind`` of Prelude/PyExtra.v); a property is its
getter / setter; an attribute assigned once in ``__init__`` from module constants
(``self.huffman_coder``) is that constant record.  Header values (hpack.struct)
are ``Decoder.header`` = (class, name, value) of Model/Decoder.v -- the only thing
the generated files take from the hand-written model (the type, so that the
bridge lemmas are plain equalities).
"""
import ast
import copy
import json
import os
import sys


class Unsupported(Exception):
    pass


def bad(node, why=""):
    raise Unsupported(f"{type(node).__name__} at line {getattr(node, 'lineno', '?')}: {why}")


EXN = {"ValueError", "IndexError", "HPACKDecodingError", "InvalidTableIndex",
       "OversizedHeaderListError", "InvalidTableSizeError", "TypeError", "UnicodeDecodeError"}

# CPython's hierarchy above the built-in classes of EXN (the same table is Model/Exn.v's builtin_bases)
BUILTIN_BASES = {"BaseException": [], "Exception": ["BaseException"], "LookupError": ["Exception"],
                 "IndexError": ["LookupError"], "ValueError": ["Exception"], "UnicodeError": ["ValueError"],
                 "UnicodeDecodeError": ["UnicodeError"], "TypeError": ["Exception"]}
SHADOWED_GLOBALS = {}   # builtin / class names that some module binds at top level to something else: name -> line
REBOUND_LOG = set()     # modules in which `log` is not (only) the module's logger: their log calls are not dropped
EXC_BASES = {}          # class -> bases, from exceptions.py of the tree under translation (set by main)
HANDLER_LEAVES = set()  # the handler types that were translated as `catch` (exact constructor): Bridge/B_exn.v
#                         re-proves, on the regenerated hierarchy, that each catches exactly its own constructor


def exception_bases(tree):
    """exceptions.py as data: every statement is a docstring, `from __future__ import ...` or a class whose header
    names its bases and whose body is docstrings / pass -- nothing that could change how `raise` / `except` behave
    (no metaclass, no __new__/__init__/__instancecheck__/__subclasshook__, no class attributes)"""
    out = {}
    for n in tree.body:
        if isinstance(n, ast.Expr) and isinstance(n.value, ast.Constant) and isinstance(n.value.value, str):
            continue
        if isinstance(n, ast.ImportFrom) and n.module == "__future__":
            continue
        if not isinstance(n, ast.ClassDef):
            raise Unsupported(f"exceptions.py line {n.lineno}: statement other than a class")
        if n.keywords or n.decorator_list or not n.bases or not all(isinstance(b, ast.Name) for b in n.bases):
            raise Unsupported(f"exceptions.py line {n.lineno}: class header of {n.name}")
        for x in n.body:
            if not (isinstance(x, ast.Pass) or (isinstance(x, ast.Expr) and isinstance(x.value, ast.Constant))):
                raise Unsupported(f"exceptions.py line {x.lineno}: body of {n.name}")
        if n.name in out or n.name in BUILTIN_BASES:
            raise Unsupported(f"exceptions.py line {n.lineno}: {n.name} defined twice or shadows a built-in class")
        for b in n.bases:
            if b.id not in out and b.id not in BUILTIN_BASES:
                raise Unsupported(f"exceptions.py line {n.lineno}: base {b.id} of {n.name} is not a known class")
        out[n.name] = [b.id for b in n.bases]
    return out


def is_subclass(c, d):
    if c == d:
        return True
    return any(is_subclass(b, d) for b in EXC_BASES.get(c, BUILTIN_BASES.get(c, [])))


def handler_is_leaf(t):
    """`except t:` catches, among the exceptions of the model, exactly the constructor t"""
    return all(e == t or not is_subclass(e, t) for e in EXN)


T_PAIR = ("tuple", ["bytes", "bytes"])

# class -> (record type, {python attribute: (record field, type)})
CLASSES = {
    "HeaderTable": ("table", {"_maxsize": ("maxsize", "int"), "_current_size": ("cursize", "int"),
                              "resized": ("resized", "bool"),
                              "dynamic_entries": ("entries", ("list", T_PAIR))}),
    "HuffmanEncoder": ("hcoder", {"huffman_code_list": ("hc_codes", ("list", "int")),
                                  "huffman_code_list_lengths": ("hc_lens", ("list", "int"))}),
    # an attribute of type ("obj", C) holds an instance of class C (a nested record)
    "Decoder": ("decoder", {"header_table": ("d_tab", ("obj", "HeaderTable")),
                            "max_header_list_size": ("d_max_list", "int"),
                            "max_allowed_table_size": ("d_max_allowed", "int")}),
    "Encoder": ("encoder", {"header_table": ("e_tab", ("obj", "HeaderTable")),
                            "table_size_changes": ("e_changes", ("list", "int"))}),
}
# attributes that hold an object built once in __init__ from module constants and never assigned
# again (checked against the source by const_attr_text): (class, attr) -> class of the object
CONST_ATTRS = {("Encoder", "huffman_coder"): "HuffmanEncoder"}
# header values (hpack.struct): class -> constructor of HV.Model.Decoder.hclass
HEADER_CLASSES = {"HeaderTuple": "Decoder.HPlain", "NeverIndexedHeaderTuple": "Decoder.HNever"}
HEADER_ANNS = {"HeaderTuple", "NeverIndexedHeaderTuple", "HeaderWeaklyTyped", "Header"}
# ---- The typed view of the dynamically typed arguments of the API (Encoder.encode, _to_bytes,
# _dict_to_iterable).  These functions accept values of several Python types; the translation is made
# under an explicit restriction of what the values can be -- the types of HV.Model.Api:
#   pystr      a bytes object (PBytes b) or a str (PText u, u its UTF-8 encoding);
#   hform      one header: a 2-tuple (F2), a 3-tuple whose last element is True/False/None (F3),
#              a HeaderTuple (FHeaderTuple) or a NeverIndexedHeaderTuple (FNever), of two pystr;
#   container  a list (CList) or a one-shot iterator (CIter) of hform, or a dict from pystr to pystr
#              (CDict: its items in insertion order).
# Values outside the view (str() of other objects, longer tuples, other mappings) are NOT covered: code
# that only they can reach is reported in a comment of the generated text and left out, and a construct
# that has no rule below makes the definition unsupported.  A variable of a view type carries the facts
# that the tests on the path to it have established ("dict", "ht", "len3", "bytes", "str", ...): a
# projection that is only meaningful for some constructors is emitted only where the fact is known.
# The rules are in Tr.E0 / Tr.refine (each marked `view:`); the projections are VIEW_PRELUDE.
def view(base, facts=()):
    return ("view", base, frozenset(facts))


def is_view(t, base=None):
    return isinstance(t, tuple) and len(t) == 3 and t[0] == "view" and (base is None or t[1] == base)


def with_fact(t, *fs):
    return ("view", t[1], t[2] | set(fs))


def has_fact(t, f):
    return is_view(t) and f in t[2]


T_PYSTR, T_HFORM, T_CONTAINER = view("pystr"), view("hform"), view("container")
T_ITEMS = ("dictview", T_PYSTR, T_PYSTR)     # a dict seen as the list of its items
T_FLAG = ("opt", "bool")                     # True, False or None
VIEW_CTY = {"pystr": "Api.pystr", "hform": "Api.hform", "container": "Api.container"}
# (class, function, parameter) -> view type; function -> view type of the result; functions that are
# translated as plain values (they must not be able to raise)
VIEW_PARAMS = {(None, "_to_bytes", "value"): T_PYSTR,
               (None, "_dict_to_iterable", "header_dict"): T_ITEMS,
               ("Encoder", "encode", "headers"): T_CONTAINER}
VIEW_RETURNS = {(None, "_dict_to_iterable"): ("iter", T_HFORM)}
TOTAL_FUNS = {"_to_bytes", "_dict_to_iterable"}
VIEW_PRELUDE = """(* The typed view (tools/py2coq/py2coq.py, "typed view"): projections of the API values.  A projection that
   is meaningful for some constructors only is emitted by the translator only under a test that
   establishes them; its value elsewhere is arbitrary and never used. *)
Definition pystr_is_bytes (s : Api.pystr) : bool := match s with Api.PBytes _ => true | Api.PText _ => false end.
(* the bytes of a bytes object; of a str, its UTF-8 encoding = value.encode("utf-8") *)
Definition pystr_payload (s : Api.pystr) : bytes := match s with Api.PBytes b => b | Api.PText u => u end.
(* isinstance(h, HeaderTuple): NeverIndexedHeaderTuple is a subclass *)
Definition form_is_header_tuple (h : Api.hform) : bool :=
  match h with Api.FHeaderTuple _ _ | Api.FNever _ _ => true | _ => false end.
(* the class attribute `indexable` (under form_is_header_tuple) *)
Definition form_indexable (h : Api.hform) : bool := match h with Api.FNever _ _ => false | _ => true end.
Definition form_len (h : Api.hform) : Z := match h with Api.F3 _ _ _ => 3 | _ => 2 end.
Definition form_item0 (h : Api.hform) : Api.pystr :=
  match h with Api.F2 n _ | Api.F3 n _ _ | Api.FHeaderTuple n _ | Api.FNever n _ => n end.
Definition form_item1 (h : Api.hform) : Api.pystr :=
  match h with Api.F2 _ v | Api.F3 _ v _ | Api.FHeaderTuple _ v | Api.FNever _ v => v end.
(* h[2] (under form_len h > 2): True, False or None *)
Definition form_item2 (h : Api.hform) : option bool := match h with Api.F3 _ _ f => f | _ => None end.
Definition container_is_dict (c : Api.container) : bool := match c with Api.CDict _ => true | _ => false end.
(* the items of a dict (under container_is_dict) *)
Definition container_items (c : Api.container) : list (Api.pystr * Api.pystr) :=
  match c with Api.CDict items => items | _ => [] end.
(* iter(c) of a list or an iterator (under negb container_is_dict): what it yields *)
Definition container_forms (c : Api.container) : list Api.hform :=
  match c with Api.CList l | Api.CIter l => l | Api.CDict _ => [] end.

"""

# calls that the translator interprets by name: a module function of that name would be mistaken for them
BUILTIN_NAMES = {"len", "int", "bool", "bytes", "bytearray", "ord", "iter", "sorted", "isinstance", "type", "memoryview",
                 "hex", "deque", "str", "enumerate", "range", "HeaderTuple", "NeverIndexedHeaderTuple", "HeaderTable",
                 "HuffmanEncoder", "min", "max", "abs", "list", "tuple", "dict", "set", "repr", "print", "format"}
# Python names that are not usable as Coq identifiers are suffixed with "_"
RESERVED = {"match", "with", "end", "fun", "let", "in", "if", "then", "else", "return", "as", "at", "fix",
            "cofix", "forall", "exists", "Type", "Prop", "Set", "struct", "where", "for", "using", "mod"}
# class-level constants: (class, attr) -> (coq name, type)
T_MAPPING = ("dict", "bytes", ("tuple", ["int", ("dict", "bytes", "int")]))
CLASS_CONSTS = {("HeaderTable", "STATIC_TABLE_LENGTH"): ("STATIC_TABLE_LENGTH", "int"),
                ("HeaderTable", "STATIC_TABLE"): ("STATIC_TABLE", ("list", T_PAIR)),
                ("HeaderTable", "DEFAULT_SIZE"): ("DEFAULT_SIZE", "int"),
                ("HeaderTable", "STATIC_TABLE_MAPPING"): ("STATIC_TABLE_MAPPING", T_MAPPING)}
# loop fuel: (function, nth while loop) -> Coq nat expression over the variables in scope
FUEL = {"encode_integer": "S (Z.to_nat (Z.log2_up integer))",
        "decode_integer": "length data",
        "_shrink": "S (length self.(entries))",
        "decode": "S (length data)"}


def cty(t):
    if t == "int":
        return "Z"
    if t in ("bool", "bytes"):
        return t
    if t == "none":
        return "unit"
    if t == "str":
        return "unit"
    if t == "hex":
        return "hexstr"
    if t == "header":
        return "Decoder.header"
    if t == "hclass":
        return "Decoder.hclass"
    if is_view(t):
        return VIEW_CTY[t[1]]
    if t[0] == "dictview":
        return f"(list ({cty(t[1])} * {cty(t[2])}))"
    if t[0] == "dkey":
        return f"({cty(t[1])} * {cty(t[2])})"
    if t[0] == "iter":
        return f"(list {cty(t[1])})"
    if t[0] == "obj":
        return CLASSES[t[1]][0]
    if t[0] == "opt" and t[1] is None:
        raise Unsupported("a variable that is only ever None")
    if t[0] == "tuple":
        return "(" + " * ".join(cty(x) for x in t[1]) + ")"
    if t[0] == "list":
        return f"(list {cty(t[1])})"
    if t[0] == "opt":
        return f"(option {cty(t[1])})"
    if t[0] == "dict":
        return f"(list ({cty(t[1])} * {cty(t[2])}))"
    raise Unsupported(f"type {t}")


def ann(a, ret=False):
    """type of an annotation (ret: in return position, where Iterable[T] is accepted for a list)"""
    if a is None:
        raise Unsupported("missing annotation")
    if isinstance(a, ast.Constant) and a.value is None:
        return "none"
    if isinstance(a, ast.Constant) and isinstance(a.value, str):
        return ann(ast.parse(a.value, mode="eval").body)
    if isinstance(a, ast.Name):
        m = {"int": "int", "bytes": "bytes", "bool": "bool", "bytearray": "bytes", "memoryview": "bytes", "None": "none"}
        if a.id in m:
            return m[a.id]
        if a.id in HEADER_ANNS:
            return "header"
    if isinstance(a, ast.BinOp) and isinstance(a.op, ast.BitOr):
        # unions: `bytes | bytearray | None` is a buffer (callers never pass None here)
        parts = []
        n = a
        while isinstance(n, ast.BinOp) and isinstance(n.op, ast.BitOr):
            parts.append(n.right)
            n = n.left
        parts.append(n)
        tl = [ann(p, ret) for p in parts]
        some = [t for t in tl if t != "none"]
        if ret and len(some) == 1 and len(tl) == 2:
            return ("opt", some[0])          # in a result: T | None is Optional[T]
        if some and all(t == "bytes" for t in some):
            return "bytes"
        if len(some) == 1 and len(tl) == 2:
            return ("opt", some[0])          # T | None
        if some and all(t == some[0] for t in some) and len(some) == len(tl):
            return some[0]
    if isinstance(a, ast.Subscript) and isinstance(a.value, ast.Name):
        if a.value.id == "tuple":
            return ("tuple", [ann(e, ret) for e in a.slice.elts])
        if a.value.id == "Optional":
            return ("opt", ann(a.slice, ret))
        if a.value.id == "list":
            return ("list", ann(a.slice))
        if a.value.id == "Iterable" and ret:
            return ("list", ann(a.slice))
    raise Unsupported("annotation " + ast.dump(a))


# ------------------------------------------------------------------ constants (tier A)

class ConstEnv:
    """module-level constant folding over literals"""

    def __init__(self):
        self.vals = {}

    def ev(self, n):
        if isinstance(n, ast.Constant) and isinstance(n.value, (int, bytes)) and not isinstance(n.value, bool):
            return n.value
        if isinstance(n, ast.Name) and n.id in self.vals:
            return self.vals[n.id]
        if isinstance(n, ast.Tuple):
            return tuple(self.ev(e) for e in n.elts)
        if isinstance(n, ast.List):
            return [self.ev(e) for e in n.elts]
        if isinstance(n, ast.UnaryOp) and isinstance(n.op, ast.USub):
            return -self.ev(n.operand)
        if isinstance(n, ast.BinOp):
            a, b = self.ev(n.left), self.ev(n.right)
            if not (isinstance(a, int) and isinstance(b, int)):
                bad(n, "non-integer constant arithmetic")
            ops = {ast.Add: lambda: a + b, ast.Sub: lambda: a - b, ast.Mult: lambda: a * b,
                   ast.BitOr: lambda: a | b, ast.BitAnd: lambda: a & b,
                   ast.LShift: lambda: a << b, ast.RShift: lambda: a >> b, ast.Pow: lambda: a ** b}
            if type(n.op) not in ops or (isinstance(n.op, (ast.Pow, ast.LShift)) and not 0 <= b <= 4096):
                bad(n, "constant operator")
            return ops[type(n.op)]()
        if isinstance(n, ast.Call) and isinstance(n.func, ast.Name) and n.func.id == "len" and len(n.args) == 1:
            return len(self.ev(n.args[0]))
        if isinstance(n, ast.ListComp) and len(n.generators) == 1:
            g = n.generators[0]
            it = g.iter
            if (isinstance(g.target, ast.Name) and not g.ifs and isinstance(it, ast.Call)
                    and isinstance(it.func, ast.Name) and it.func.id == "range" and len(it.args) == 1):
                out = []
                saved = self.vals.get(g.target.id)
                for i in range(self.ev(it.args[0])):
                    self.vals[g.target.id] = i
                    out.append(self.ev(n.elt))
                if saved is None:
                    self.vals.pop(g.target.id, None)
                else:
                    self.vals[g.target.id] = saved
                return out
        bad(n, "not a constant expression")


def coq_int(v):
    return str(v) if v >= 0 else f"({v})"


def coq_bytes(b):
    return "[" + "; ".join(f"Byte.x{c:02x}" for c in b) + "]"


def _seq_tuple(v):
    """a constant tuple used as an immutable sequence: more than 3 elements, all of one type"""
    return len(v) > 3 and len({json.dumps(val_type(x)) for x in v}) == 1


def coq_val(v):
    if isinstance(v, bool):
        return "true" if v else "false"
    if isinstance(v, int):
        return coq_int(v)
    if isinstance(v, bytes):
        return coq_bytes(v)
    if isinstance(v, tuple) and not _seq_tuple(v):
        return "(" + ", ".join(coq_val(x) for x in v) + ")"
    if isinstance(v, PairList):
        return "[" + "; ".join(coq_val(x) for x in v) + "]"
    if isinstance(v, (list, tuple)):
        return "[" + ";\n  ".join(coq_val(x) for x in v) + "]"
    raise Unsupported(f"value {v!r}")


def val_type(v):
    if isinstance(v, bool):
        return "bool"
    if isinstance(v, int):
        return "int"
    if isinstance(v, bytes):
        return "bytes"
    if isinstance(v, tuple) and not _seq_tuple(v):
        return ("tuple", [val_type(x) for x in v])
    if isinstance(v, MappingList):
        return T_MAPPING
    if isinstance(v, PairList):
        return ("dict", "bytes", "int")
    if isinstance(v, (list, tuple)):
        ts = [val_type(x) for x in v]
        if not ts or any(t != ts[0] for t in ts):
            raise Unsupported("heterogeneous or empty list constant")
        return ("list", ts[0])
    raise Unsupported(f"value {v!r}")


# ------------------------------------------------------------------ functions (tiers B, C)

class Meth:
    """signature of a translated method / property accessor: Coq name, does it mutate self, parameter
    names and types (without self), result type, `total` (a plain value, not an outcome), defaults
    (parameter -> constant AST), `ok` (its translation succeeded, so that it can be called)"""

    def __init__(self, cname, rw, ptys, rty, pnames=None, total=False, defaults=None, ok=True):
        self.cname, self.rw, self.ptys, self.rty = cname, rw, ptys, rty
        self.pnames = pnames if pnames is not None else [None] * len(ptys)
        self.total, self.defaults, self.ok = total, defaults or {}, ok
        self.truthy = set()   # parameters that the body only uses as the operand of `not` or as a test
        self.helper = None    # the Helper it is, if it is not one of the named definitions

    def __iter__(self):   # (cname, rw, ptys, rty), the original tuple form
        return iter((self.cname, self.rw, self.ptys, self.rty))


class Helper:
    """an auxiliary definition of the source that the fixed list of definitions does not name (a helper
    function of a module, a helper method of a translated class).  It is translated like the others and
    bound by a local definition `let <local> := fun ... => ... in` at the head of every definition that
    uses it, directly or through other helpers: no new top-level names, and a definition from which a
    helper was extracted stays convertible with (or case-by-case equal to) what it was before."""

    def __init__(self, key, cls, fd, local):
        self.key, self.cls, self.fd, self.local = key, cls, fd, local
        self.lam = None       # fun (parameters) => body
        self.deps = []        # the helpers its own body uses
        self.error = None     # why it could not be translated
        self.level = 1        # 0: its text only needs what GInt.v can see
        self.total = False    # a plain value, not an outcome
        self.rw = False       # (a method) changes self
        self.state = "new"
        self.translate = None  # set where the helper is found: translates it in the context of its own module/class
        self.entry = None     # (a function) its entry in the table of functions
        self.meth = None      # (a method) its Meth

    def ensure(self):
        """translate the helper (once), at its first use: everything emitted before is available to it"""
        if self.state == "busy":
            raise Unsupported(f"the helper {self.local} is recursive")
        if self.state == "new":
            self.state = "busy"
            try:
                self.translate(self)
            except Unsupported as e:
                self.error, self.lam = str(e), None
            self.state = "done"
        if self.error is not None:
            raise Unsupported(f"calls the helper {self.local}, whose translation failed: {self.error}")


def helper_closure(hs):
    """the helpers hs and those they use, each after the ones it uses"""
    out = []

    def visit(h, path):
        if h in out:
            return
        if h in path:
            raise Unsupported(f"recursive helper {h.local}")
        if h.error is not None or h.lam is None:
            raise Unsupported(f"uses the helper {h.local}, whose translation failed: {h.error}")
        for d in h.deps:
            visit(d, path + [h])
        out.append(h)
    for h in hs:
        visit(h, [])
    return out


def helper_prefix(hs):
    return "".join(f"let {h.local} := {h.lam} in\n" for h in helper_closure(hs))


class ClsInfo:
    """what is known of a class when its instances are used as nested objects:
    methods name -> Meth; getters property -> Meth or ("field", record field, type); setters property -> Meth;
    const_attrs attribute -> (class, Coq text of the constant object)"""

    def __init__(self):
        self.methods, self.getters, self.setters, self.const_attrs = {}, {}, {}, {}


class Fn:
    def __init__(self, name, cls, rw, params, ret_type, consts, methods, funs, classes=None, fd=None,
                 bytearray_funs=()):
        self.name, self.cls, self.rw, self.params, self.ret_type = name, cls, rw, params, ret_type
        self.consts, self.methods, self.funs = consts, methods, funs
        self.classes = classes or {}
        self.fd = fd
        self.bytearray_funs = set(bytearray_funs)
        self.struct_ok = False    # hpack.struct says HeaderTuple.indexable = True, NeverIndexedHeaderTuple(HeaderTuple).indexable = False
        self.init_fields = None   # inside __init__: attribute of self -> (local name, type), as they get assigned
        self.inits = {}           # class -> Coq name of its translated __init__ (a constant: no parameters)
        self.used_helpers = []    # the helpers the body calls
        self.level = 1            # 0 while translating for GInt.v: only helpers of level 0 can be used
        self.fresh = 0
        self.nloops = 0

    def fun_entry(self, name):
        """the entry of a module-level function; a helper is translated when it is first needed"""
        v = self.funs[name]
        if isinstance(v, Helper):
            v.ensure()
            return v.entry
        return v

    def use(self, h):
        if h.error is not None or h.lam is None:
            raise Unsupported(f"calls the helper {h.local}, whose translation failed: {h.error}")
        if h.level > self.level:
            raise Unsupported(f"calls the helper {h.local}, which needs definitions of a later file")
        if h not in self.used_helpers:
            self.used_helpers.append(h)

    def tmp(self):
        self.fresh += 1
        return f"t{self.fresh}"


def proj(text, i, n):
    """i-th component of a left-nested n-tuple"""
    if n == 1:
        return text
    if i == n - 1:
        return f"(snd {text})"
    return proj(f"(fst {text})", i, n - 1)


class Tr:
    def __init__(self, fn):
        self.fn = fn
        self.loop = []      # stack of loop-state patterns (text)
        self.loopvars = []
        self.ret_vars = set()
        self.unify_ok = 0   # > 0 inside the arms of an If that joins (None gets its type at the join)
        self.total = False  # the function is translated as a plain value: nothing in it may raise
        self.pure = 0       # > 0 inside a block of a mutating method that is translated as a plain outcome

    def rw(self):
        """is the answer type of the code being emitted `outcome R * state`?"""
        return self.fn.rw and not self.pure

    # ---- answer-type dependent emitters
    def ret(self, v):
        if self.total:
            return f"({v})"
        if self.loop:
            return f"Return ({v}) {self.loop[-1]}"
        return f"(Ok ({v}), self)" if self.rw() else f"Ok ({v})"

    def raise_(self, e):
        if self.total:
            raise Unsupported("raise in a function translated as a plain value")
        if self.loop:
            return f"Raise {e} {self.loop[-1]}"
        return f"(Err {e}, self)" if self.rw() else f"Err {e}"

    def bind(self, m, pat, k):
        if self.total:
            raise Unsupported(f"`{m.split(' ')[0]}` can raise, in a function translated as a plain value")
        if self.loop:
            p = pat[1:] if pat.startswith("'") else pat
            return f"match {m} with Err e_ => Raise e_ {self.loop[-1]} | Ok {p} =>\n{k} end"
        if self.rw():
            return f"mbind ({m}) self (fun {pat} =>\n{k})"
        return f"{pat} <- {m} ;;\n{k}"

    def state_call(self, node, m, setter, pat, k):
        """bind the result of a call that returns (outcome, new state of its receiver); the receiver is
        self (setter None) or the object held in the field `setter` of self, which is stored back --
        also when the call raised"""
        if not self.rw():
            bad(node, "mutating call where self cannot change")
        p = pat[1:] if pat.startswith("'") else pat
        if self.loop:
            lp = self.loop[-1]
            if setter is None:
                return f"match {m} with (Err e_, self) => Raise e_ {lp} | (Ok {p}, self) =>\n{k} end"
            return (f"match {m} with (Err e_, o_) => let self := set_{setter} o_ self in Raise e_ {lp} "
                    f"| (Ok {p}, o_) => let self := set_{setter} o_ self in\n{k} end")
        if setter is None:
            return f"sbind ({m}) (fun {pat} self =>\n{k})"
        return f"nbind ({m}) (fun o_ => set_{setter} o_ self) (fun {pat} self =>\n{k})"

    # ---- objects: self, an object held in a field of self, a constant object of self
    def objpath(self, n):
        """(Coq text, class, field to store a new state back into or None, kind) of a receiver"""
        fn = self.fn
        if not fn.cls:
            return None
        if fn.init_fields is not None:
            # inside __init__ there is no self yet, only the attributes assigned so far
            if isinstance(n, ast.Attribute) and isinstance(n.value, ast.Name) and n.value.id == "self" \
                    and n.attr in fn.init_fields and isinstance(fn.init_fields[n.attr][1], tuple) \
                    and fn.init_fields[n.attr][1][0] == "obj":
                return fn.init_fields[n.attr][0], fn.init_fields[n.attr][1][1], None, "init"
            return None
        if isinstance(n, ast.Name) and n.id == "self":
            return "self", fn.cls, None, "self"
        if isinstance(n, ast.Attribute) and isinstance(n.value, ast.Name) and n.value.id == "self":
            f = CLASSES[fn.cls][1].get(n.attr)
            if f and isinstance(f[1], tuple) and f[1][0] == "obj":
                return f"self.({f[0]})", f[1][1], f[0], "field"
            ci = fn.classes.get(fn.cls)
            if ci and n.attr in ci.const_attrs:
                c, text = ci.const_attrs[n.attr]
                return text, c, None, "const"
        return None

    def method_of(self, call):
        """(Meth, receiver text, store-back field, kind) when `call` is recv.m(...) for a known method m of
        a receiver as in objpath"""
        f = call.func
        if not isinstance(f, ast.Attribute):
            return None
        r = self.objpath(f.value)
        if r is None:
            return None
        text, cls, setter, kind = r
        if kind == "self":
            m = self.fn.methods.get(f.attr)
        else:
            ci = self.fn.classes.get(cls)
            m = ci.methods.get(f.attr) if ci else None
        if m is None:
            return None
        if m.helper is not None and None not in m.ptys:
            m.helper.ensure()        # (else at the call, once the types of the arguments are known: call_args)
        return m, text, setter, kind

    def call_args(self, m, call, env):
        """argument bindings and texts of a call of m: positional, keyword, default; type-checked"""
        if any(isinstance(a, ast.Starred) for a in call.args) or len(call.args) > len(m.ptys):
            bad(call, "call arity")
        given = list(call.args) + [None] * (len(m.ptys) - len(call.args))
        last = len(call.args) - 1
        for kw in call.keywords:
            if kw.arg is None or kw.arg not in m.pnames:
                bad(call, "keyword argument")
            i = m.pnames.index(kw.arg)
            if given[i] is not None or i < last:
                bad(call, "keyword argument order")
            given[i], last = kw.value, i
        bs, ts = [], []
        for i, (a, pt) in enumerate(zip(given, m.ptys)):
            if a is None:
                a = m.defaults.get(m.pnames[i])
                if a is None:
                    bad(call, "call arity")
            if pt is None:
                # view: a parameter of a helper whose annotation says nothing usable takes the typed view of what
                # it is given (the helper is only reached from translated code: its callers fix the view)
                b, t, ty = self.E(a, env)
                if not is_view(ty):
                    bad(a, "argument for a parameter of unknown type")
                m.ptys[i] = pt = view(ty[1])
            if pt == "bool" and isinstance(a, ast.Name) and env.get(a.id) == T_FLAG:
                # view: the callee only ever tests this parameter (`not p`, `if p`), so that True / False /
                # None can be passed as their truthiness
                if m.pnames[i] not in m.truthy:
                    bad(a, "True/False/None passed where a bool is more than tested")
                ts.append(f"((flag_truthy {a.id}))")
                continue
            b, t, ty = self.E(a, env, pt)
            if ty != pt:
                bad(a, f"argument of type {ty} for a parameter of type {pt}")
            bs += b
            ts.append(f"({t})")
        if m.helper is not None:
            m.helper.ensure()
        return bs, ts

    def call_text(self, m, recv, ts):
        if m.helper is not None:
            self.fn.use(m.helper)
        if not m.ok:
            raise Unsupported(f"calls {m.cname}, whose translation failed")
        return f"{m.cname} {recv}" + ((" " + " ".join(ts)) if ts else "")

    def pure_binds(self, bs, k):
        """bindings rendered in the plain outcome monad, whatever the answer type around"""
        for v, m in reversed(bs):
            k = f"{v} <- {m} ;;\n{k}"
        return k

    # ---- the typed view: tests and the facts they establish
    def typeof_subject(self, n, env):
        """the pystr variable v when n is type(v), or a variable still bound to type(v)"""
        if isinstance(n, ast.Call) and isinstance(n.func, ast.Name) and n.func.id == "type" and len(n.args) == 1 \
                and not n.keywords and isinstance(n.args[0], ast.Name) and is_view(env.get(n.args[0].id), "pystr"):
            return n.args[0].id
        if isinstance(n, ast.Name) and isinstance(env.get(n.id), tuple) and env[n.id][0] == "typeof":
            v = env[n.id][1]
            # v has not been assigned since: its type still carries the mark of this variable
            if has_fact(env.get(v), ("tvar", n.id)):
                return v
        return None

    def view_test(self, test, env):
        """(variable, fact if true, fact if false) when the test is one the typed view interprets"""
        if isinstance(test, ast.UnaryOp) and isinstance(test.op, ast.Not):
            r = self.view_test(test.operand, env)
            return None if r is None else (r[0], r[2], r[1])
        if isinstance(test, ast.Call) and isinstance(test.func, ast.Name) and test.func.id == "isinstance" \
                and len(test.args) == 2 and not test.keywords and isinstance(test.args[0], ast.Name) \
                and isinstance(test.args[1], ast.Name):
            x, c = test.args[0].id, test.args[1].id
            if is_view(env.get(x), "container") and c == "dict":
                return x, "dict", "notdict"
            if is_view(env.get(x), "hform") and c == "HeaderTuple" and self.fn.struct_ok:
                return x, "ht", "notht"
            return None
        if isinstance(test, ast.Compare) and len(test.ops) == 1:
            op, l, c = test.ops[0], test.left, test.comparators[0]
            # len(h) > 2: of the forms of the view only the 3-tuple is that long
            if isinstance(l, ast.Call) and isinstance(l.func, ast.Name) and l.func.id == "len" and len(l.args) == 1 \
                    and isinstance(l.args[0], ast.Name) and is_view(env.get(l.args[0].id), "hform") \
                    and isinstance(c, ast.Constant) and type(c.value) is int \
                    and ((isinstance(op, ast.Gt) and c.value == 2) or (isinstance(op, (ast.GtE, ast.Eq)) and c.value == 3)):
                return l.args[0].id, "len3", None
            if isinstance(op, (ast.Is, ast.IsNot)) and isinstance(c, ast.Name) and c.id in ("bytes", "str"):
                v = self.typeof_subject(l, env)
                if v is not None:
                    f = ("bytes", "str") if c.id == "bytes" else ("str", "bytes")
                    return (v, f[0], f[1]) if isinstance(op, ast.Is) else (v, f[1], f[0])
        return None

    def static_test(self, test, env):
        """True / False when the facts known of the view variables decide the test, else None"""
        if isinstance(test, ast.UnaryOp) and isinstance(test.op, ast.Not):
            r = self.static_test(test.operand, env)
            return None if r is None else not r
        if isinstance(test, ast.Call) and isinstance(test.func, ast.Name) and test.func.id == "isinstance" \
                and len(test.args) == 2 and isinstance(test.args[0], ast.Name) and isinstance(test.args[1], ast.Name) \
                and test.args[1].id == "dict" and isinstance(env.get(test.args[0].id), tuple) \
                and env[test.args[0].id][0] == "dictview":
            return True
        r = self.view_test(test, env)
        if r is not None:
            x, ft, ff = r
            if ft is not None and has_fact(env[x], ft):
                return True
            if ff is not None and has_fact(env[x], ff):
                return False
        return None

    def refine(self, test, env):
        """the environments of the two arms of a test"""
        r = self.view_test(test, env)
        if r is None:
            return env, env
        x, ft, ff = r
        et, ee = dict(env), dict(env)
        if ft is not None:
            et[x] = with_fact(env[x], ft)
        if ff is not None:
            ee[x] = with_fact(env[x], ff)
        return et, ee

    def with_bindings(self, bs, k):
        for v, m in reversed(bs):
            k = self.bind(m, v, k)
        return k

    # ---- coercion into Optional slots
    def coerce(self, text, have, want, node=None):
        if want is None or have == want:
            return text
        # view: the facts are not part of the type
        if is_view(have) and is_view(want) and have[1] == want[1]:
            return text
        # view: a pystr known to be a bytes object, used as bytes
        if has_fact(have, "bytes") and is_view(have, "pystr") and want == "bytes":
            return f"(pystr_payload {text})"
        # view: a container known to be a dict, seen as its items
        if has_fact(have, "dict") and is_view(have, "container") and want == T_ITEMS:
            return f"(container_items {text})"
        # view: a key obtained from d.keys() is carried with its value; used as the key itself
        if isinstance(have, tuple) and have[0] == "dkey" and is_view(want) and is_view(have[1]) and have[1][1] == want[1]:
            return f"(fst {text})"
        if isinstance(have, tuple) and have[0] == "iter" and isinstance(want, tuple) and want[0] == "iter" \
                and is_view(have[1]) and is_view(want[1]) and have[1][1] == want[1][1]:
            return text
        if have == "noneval" and isinstance(want, tuple) and want[0] == "opt":
            return "None"
        if isinstance(want, tuple) and want[0] == "opt" and have == want[1]:
            return f"(Some {text})"
        if isinstance(want, tuple) and want[0] == "opt" and isinstance(want[1], tuple) and want[1][0] == "tuple" \
                and isinstance(have, tuple) and have[0] == "tuple":
            return f"(Some {text})" if self.same(have, want[1]) else bad(node, f"cannot coerce {have} to {want}")
        bad(node, f"cannot coerce {have} to {want}")

    def same(self, a, b):
        return a == b

    # ---- expressions: (bindings, text, type)
    def E(self, n, env, want=None):
        b, t, ty = self.E0(n, env, want)
        if want is not None and ty != want:
            return b, self.coerce(t, ty, want, n), want
        return b, t, ty

    def E0(self, n, env, want=None):
        fn = self.fn
        if isinstance(n, ast.Constant):
            if isinstance(n.value, bool):
                return [], ("true" if n.value else "false"), "bool"
            if isinstance(n.value, int):
                return [], coq_int(n.value), "int"
            if n.value is None:
                return [], "tt", "noneval"
            if isinstance(n.value, bytes):
                return [], coq_bytes(n.value), "bytes"
            if isinstance(n.value, str) and len(n.value) == 1 and n.value in "0123456789abcdef":
                return [], "[" + str(int(n.value, 16)) + "]", "hex"
            if isinstance(n.value, str):
                return [], "tt", "str"   # a message: content dropped
            bad(n, "constant")
        if isinstance(n, ast.Name):
            if n.id in env:
                if env[n.id] == ("opt", None):
                    bad(n, "use of a variable that is None before its type is known")
                if isinstance(env[n.id], tuple) and env[n.id][0] == "typeof":
                    bad(n, "a type object used as a value")
                return [], n.id, env[n.id]
            if n.id in fn.consts:
                return [], n.id, fn.consts[n.id]
            if n.id in HEADER_CLASSES and fn.struct_ok:
                # one of the two header-tuple classes as a VALUE (e.g. `cls = Never if flag else Plain; cls(n, v)`)
                return [], HEADER_CLASSES[n.id], "hclass"
            bad(n, f"unknown name {n.id}")
        if isinstance(n, ast.Attribute):
            if isinstance(n.value, ast.Name) and n.value.id == "self" and fn.init_fields is not None:
                if n.attr in fn.init_fields:
                    return [], fn.init_fields[n.attr][0], fn.init_fields[n.attr][1]
                bad(n, "attribute read before it is assigned")
            if isinstance(n.value, ast.Name) and n.value.id == "self" and fn.cls:
                fields = CLASSES[fn.cls][1]
                if n.attr in fields:
                    f, t = fields[n.attr]
                    return [], f"self.({f})", t
            if isinstance(n.value, ast.Name) and (n.value.id, n.attr) in CLASS_CONSTS:
                c, t = CLASS_CONSTS[(n.value.id, n.attr)]
                return [], c, t
            r = self.objpath(n.value)
            if r is not None:
                # a field or a property of self / of an object held by self
                text, cls, _, kind = r
                if kind != "self" and n.attr in CLASSES[cls][1]:
                    f, t = CLASSES[cls][1][n.attr]
                    return [], f"{text}.({f})", t
                g = fn.classes[cls].getters.get(n.attr) if cls in fn.classes else None
                if isinstance(g, tuple) and g[0] == "field":
                    return [], f"{text}.({g[1]})", g[2]
                if isinstance(g, Meth):
                    if g.total:
                        return [], "(" + self.call_text(g, text, []) + ")", g.rty
                    x = fn.tmp()
                    return [(x, self.call_text(g, text, []))], x, g.rty
            if isinstance(n.value, ast.Name) and n.value.id == "self" and fn.cls and fn.classes.get(fn.cls) \
                    and n.attr in fn.classes[fn.cls].const_attrs:
                bad(n, "a constant object used as a value")
            # view: the class attribute `indexable` of a form known to be a HeaderTuple
            if n.attr == "indexable" and isinstance(n.value, ast.Name) and has_fact(env.get(n.value.id), "ht") \
                    and is_view(env[n.value.id], "hform") and fn.struct_ok:
                return [], f"(form_indexable {n.value.id})", "bool"
            bad(n, "attribute")
        if isinstance(n, ast.Tuple) and is_view(want, "hform") and len(n.elts) == 2:
            # view: a plain pair is the form F2
            ab, a, aty = self.E(n.elts[0], env, T_PYSTR)
            vb, v, vty = self.E(n.elts[1], env, T_PYSTR)
            return ab + vb, f"(Api.F2 {a} {v})", want
        if isinstance(n, ast.Tuple):
            wants = want[1] if (isinstance(want, tuple) and want[0] == "tuple" and len(want[1]) == len(n.elts)) \
                else (want[1][1] if (isinstance(want, tuple) and want[0] == "opt" and isinstance(want[1], tuple)
                                      and want[1][0] == "tuple" and len(want[1][1]) == len(n.elts)) else [None] * len(n.elts))
            bs, ts, tys = [], [], []
            for e, w in zip(n.elts, wants):
                b, t, ty = self.E(e, env, w)
                bs += b
                ts.append(t)
                tys.append(ty)
            return bs, "(" + ", ".join(ts) + ")", ("tuple", tys)
        if isinstance(n, ast.List):
            bs, ts, ty = [], [], None
            for e in n.elts:
                b, t, ty = self.E(e, env)
                bs += b
                ts.append(t)
            if ty is None:
                if isinstance(want, tuple) and want[0] == "list":
                    return [], "[]", want
                bad(n, "empty list literal")
            return bs, "[" + "; ".join(ts) + "]", ("list", ty)
        if isinstance(n, ast.UnaryOp) and isinstance(n.op, ast.USub):
            b, t, ty = self.E(n.operand, env)
            if ty != "int":
                bad(n, "unary minus on " + str(ty))
            return b, f"(- {t})", "int"
        if isinstance(n, ast.UnaryOp) and isinstance(n.op, ast.Not):
            b, t = self.cond(n.operand, env)
            if t.startswith("(negb ") and t.endswith(")") and _balanced(t[6:-1]):
                return b, t[6:-1], "bool"
            return b, f"(negb {t})", "bool"
        if isinstance(n, ast.IfExp):
            st = self.static_test(n.test, env)
            if st is not None:
                # view: the facts known here decide the test; the other arm can only be reached by values outside the view
                return self.E(n.body if st else n.orelse, env, want)
            cb, c = self.cond(n.test, env)
            ab, a, aty = self.E(n.body, env)
            eb, e, ety = self.E(n.orelse, env)
            if ab or eb or aty != ety:
                bad(n, "conditional expression with raising or differently typed arms")
            return cb, f"(if {c} then {a} else {e})", aty
        if isinstance(n, ast.BinOp):
            if isinstance(n.op, ast.Mod) and isinstance(n.left, ast.Constant) and isinstance(n.left.value, str):
                import re as _re
                specs = _re.findall(r"%(?!%)(.)", n.left.value.replace("%%", ""))
                if specs != ["d"] or _re.search(r"%(?![d%])", n.left.value):
                    bad(n, "a %-format other than one %d")       # (the number and kind of conversions decide whether it raises)
                rb, r, rt = self.E(n.right, env)
                if rt != "int":
                    bad(n, "format argument")
                return rb + [(fn.tmp(), f"py_format_d ({r})")], "tt", "str"
            lb, l, lt = self.E(n.left, env)
            rb, r, rt = self.E(n.right, env)
            if lt == "hex" and rt == "hex" and isinstance(n.op, ast.Add):
                return lb + rb, f"({l} ++ {r})", "hex"
            if lt == "hex" and rt == "int" and isinstance(n.op, ast.Mult):
                return lb + rb, f"(str_repeat {l} ({r}))", "hex"
            if lt == "bytes" and rt == "bytes" and isinstance(n.op, ast.Add):
                return lb + rb, f"({l} ++ {r})", "bytes"
            if isinstance(n.op, ast.Add) and isinstance(lt, tuple) and isinstance(rt, tuple) and lt[0] == "list" \
                    and rt[0] == "list" and (lt == rt or None in (lt[1], rt[1])):
                # concatenation of two lists (a new list)
                return lb + rb, f"({l} ++ {r})", (lt if lt[1] is not None else rt)
            if lt != "int" or rt != "int":
                bad(n, f"binary operator on {lt}, {rt}")
            ops = {ast.Add: "{} + {}", ast.Sub: "{} - {}", ast.Mult: "{} * {}",
                   ast.BitAnd: "Z.land ({}) ({})", ast.BitOr: "Z.lor ({}) ({})",
                   ast.LShift: "Z.shiftl ({}) ({})", ast.RShift: "Z.shiftr ({}) ({})",
                   ast.Mod: "Z.modulo ({}) ({})", ast.FloorDiv: "Z.div ({}) ({})", ast.Pow: "Z.pow ({}) ({})"}
            if type(n.op) not in ops:
                bad(n, "operator")
            if isinstance(n.op, (ast.Mod, ast.FloorDiv)):
                # x % 0 and x // 0 raise ZeroDivisionError in Python and are 0 in Coq: only a non-zero literal divisor
                # is rendered
                d = n.right
                dv = d.value if isinstance(d, ast.Constant) else None
                if not (type(dv) is int and dv != 0):
                    bad(n, "division or modulo by something that is not a non-zero integer literal")
            return lb + rb, "(" + ops[type(n.op)].format(l, r) + ")", "int"
        if isinstance(n, ast.Compare) and len(n.ops) == 1:
            op = n.ops[0]
            c = n.comparators[0]
            if isinstance(op, (ast.Is, ast.IsNot)) and isinstance(c, ast.Name) and c.id in ("bytes", "str"):
                # view: the type of a pystr is bytes or str
                v = self.typeof_subject(n.left, env)
                if v is None:
                    bad(n, "type test")
                t = f"(pystr_is_bytes {v})"
                return [], (t if (c.id == "bytes") == isinstance(op, ast.Is) else f"(negb {t})"), "bool"
            if isinstance(op, (ast.Is, ast.IsNot)) and isinstance(c, ast.Constant) and c.value is None:
                lb, l, lt = self.E(n.left, env)
                if not (isinstance(lt, tuple) and lt[0] == "opt"):
                    bad(n, "is None on a non-optional")
                t = f"(opt_truthy {l})"
                return lb, (f"(negb {t})" if isinstance(op, ast.Is) else t), "bool"
            lb, l, lt = self.E(n.left, env)
            rb, r, rt = self.E(c, env)
            if lt == "bytes" and rt == "bytes" and isinstance(op, (ast.Eq, ast.NotEq)):
                t = f"(bytes_eqb {l} {r})"
                return lb + rb, (t if isinstance(op, ast.Eq) else f"(negb {t})"), "bool"
            if lt != "int" or rt != "int":
                bad(n, f"comparison of {lt}, {rt}")
            ops = {ast.Lt: "<?", ast.LtE: "<=?", ast.Gt: ">?", ast.GtE: ">=?", ast.Eq: "=?"}
            if isinstance(op, ast.NotEq):
                return lb + rb, f"(negb ({l} =? {r}))", "bool"
            if type(op) not in ops:
                bad(n, "comparison operator")
            return lb + rb, f"({l} {ops[type(op)]} {r})", "bool"
        if isinstance(n, ast.BoolOp):
            ts = []
            for v in n.values:
                b, t = self.cond(v, env)
                if b:
                    bad(n, "raising operand under and/or")
                ts.append(t)
            op = " || " if isinstance(n.op, ast.Or) else " && "
            return [], "(" + op.join(ts) + ")", "bool"
        if isinstance(n, ast.Subscript):
            # hex(x)[2:]
            if (isinstance(n.slice, ast.Slice) and isinstance(n.value, ast.Call) and isinstance(n.value.func, ast.Name)
                    and n.value.func.id == "hex" and len(n.value.args) == 1 and n.slice.upper is None
                    and n.slice.step is None and isinstance(n.slice.lower, ast.Constant) and n.slice.lower.value == 2):
                b, t, ty = self.E(n.value.args[0], env)
                if ty != "int":
                    bad(n, "hex of non-int")
                return b, f"(py_hex_tail ({t}))", "hex"
            vb, v, vt = self.E(n.value, env)
            if isinstance(n.slice, ast.Slice):
                # l[a:], l[a:b], l[:b] never raise
                if n.slice.step is not None or not (vt == "bytes" or (isinstance(vt, tuple) and vt[0] == "list")):
                    bad(n, "slice")
                lo, hi = n.slice.lower, n.slice.upper
                lb, l, lt = self.E(lo, env) if lo is not None else ([], "0", "int")
                if lt != "int":
                    bad(n, "slice bound")
                if hi is None:
                    return vb + lb, f"(slice_from {v} ({l}))", vt
                hb, h, ht = self.E(hi, env)
                if ht != "int":
                    bad(n, "slice bound")
                return vb + lb + hb, f"(slice_Z {v} ({l}) ({h}))", vt
            if is_view(vt, "hform"):
                # view: the elements of a form; the third exists for a 3-tuple only
                i = n.slice.value if isinstance(n.slice, ast.Constant) and type(n.slice.value) is int else None
                if i in (0, 1):
                    return vb, f"(form_item{i} {v})", T_PYSTR
                if i == 2 and has_fact(vt, "len3"):
                    return vb, f"(form_item2 {v})", T_FLAG
                bad(n, "element of a header form")
            if isinstance(vt, tuple) and vt[0] == "dictview":
                # view: d[k] for a key k that came from d.keys() -- it is carried with its value
                ib, i, it = self.E(n.slice, env)
                if not (isinstance(it, tuple) and it[0] == "dkey" and isinstance(n.value, ast.Name) and it[3] == n.value.id):
                    bad(n, "dict lookup")
                return vb + ib, f"(snd {i})", vt[2]
            if vt == "header":
                # a header is the pair (name, value) of its class
                if isinstance(n.slice, ast.Constant) and n.slice.value in (0, 1) and not isinstance(n.slice.value, bool):
                    return vb, "(Decoder.%s %s)" % (("h_name", "h_value")[n.slice.value], v), "bytes"
                bad(n, "header index")
            if isinstance(vt, tuple) and vt[0] == "tuple":
                if not (isinstance(n.slice, ast.Constant) and isinstance(n.slice.value, int)
                        and 0 <= n.slice.value < len(vt[1])):
                    bad(n, "tuple index")
                i = n.slice.value
                return vb, proj(v, i, len(vt[1])), vt[1][i]
            ib, i, it = self.E(n.slice, env)
            if it != "int":
                bad(n, "index type")
            x = fn.tmp()
            if vt == "bytes":
                return vb + ib + [(x, f"index_Z {v} ({i})")], f"(bz {x})", "int"
            if isinstance(vt, tuple) and vt[0] == "list":
                return vb + ib + [(x, f"index_Z {v} ({i})")], x, vt[1]
            bad(n, f"subscript of {vt}")
        if isinstance(n, ast.Call):
            f = n.func
            if isinstance(f, ast.Name) and f.id in fn.funs and (f.id in env or f.id in BUILTIN_NAMES):
                bad(n, f"{f.id} is also a local variable, or a module function named like a builtin")
            if isinstance(f, ast.Name) and (f.id in BUILTIN_NAMES or f.id in fn.funs) and f.id in self.bound_here():
                # a call that would be read by NAME (a builtin, a class, a module function) while the name is bound to
                # something else in this function (a parameter, a local, a loop target ...)
                bad(n, f"{f.id} is called, but it is a name bound in this function")
            if isinstance(f, ast.Name) and f.id in SHADOWED_GLOBALS:
                bad(n, f"{f.id} is called, but a module binds that name to something else (line {SHADOWED_GLOBALS[f.id]})")
            if isinstance(f, ast.Name) and env.get(f.id) == "hclass":
                # a call of a local that holds one of the two header-tuple classes: the tuple of that class
                if len(n.args) != 2 or n.keywords or any(isinstance(a, ast.Starred) for a in n.args):
                    bad(n, "header constructor through a variable")
                ab, a, aty = self.E(n.args[0], env)
                vb, v, vty = self.E(n.args[1], env)
                if aty != "bytes" or vty != "bytes":
                    bad(n, "header constructor argument")
                return ab + vb, f"({f.id}, {a}, {v})", "header"
            if isinstance(f, ast.Name):
                if f.id == "isinstance" and len(n.args) == 2 and not n.keywords:
                    # view: class tests on a container / a form
                    st = self.static_test(n, env)
                    if st is not None:
                        return [], ("true" if st else "false"), "bool"
                    r = self.view_test(n, env)
                    if r is None:
                        bad(n, "isinstance")
                    fun_ = "container_is_dict" if r[1] == "dict" else "form_is_header_tuple"
                    return [], f"({fun_} {r[0]})", "bool"
                if f.id == "iter" and len(n.args) == 1 and not n.keywords and isinstance(n.args[0], ast.Name) \
                        and is_view(env.get(n.args[0].id), "container"):
                    # view: iter() of a list / an iterator of forms
                    if not has_fact(env[n.args[0].id], "notdict"):
                        bad(n, "iter of a container that may be a dict")
                    return [], f"(container_forms {n.args[0].id})", ("iter", T_HFORM)
                if f.id == "sorted" and len(n.args) == 1 and len(n.keywords) == 1 and n.keywords[0].arg == "key" \
                        and isinstance(n.keywords[0].value, ast.Lambda):
                    # sorted(xs, key=lambda k: <bool>): stable, False before True
                    lam = n.keywords[0].value
                    a = lam.args
                    if len(a.args) != 1 or a.vararg or a.kwarg or a.kwonlyargs or a.defaults or a.posonlyargs:
                        bad(n, "lambda form")
                    xb, xs, xt = self.E(n.args[0], env)
                    if not (isinstance(xt, tuple) and xt[0] == "list"):
                        bad(n, "sorted of " + str(xt))
                    env2 = dict(env)
                    env2[a.args[0].arg] = xt[1]
                    kb, k, kt = self.E(lam.body, env2)
                    if kb or kt != "bool":
                        bad(n, "sort key that can raise or is not a bool")
                    return xb, f"(stable_sort_by (fun {a.args[0].arg} => {k}) {xs})", xt
                if f.id == "list" and len(n.args) == 1 and not n.keywords:
                    # list(xs) of a list: a copy (lists are values here)
                    b, t, ty = self.E(n.args[0], env)
                    if not (isinstance(ty, tuple) and ty[0] == "list"):
                        bad(n, "list() of " + str(ty))
                    return b, t, ty
                if f.id == "len" and len(n.args) == 1 and isinstance(n.args[0], ast.Name) \
                        and is_view(env.get(n.args[0].id), "hform"):
                    return [], f"(form_len {n.args[0].id})", "int"
                if f.id == "len" and len(n.args) == 1:
                    b, t, ty = self.E(n.args[0], env)
                    if not (ty in ("bytes", "hex") or (isinstance(ty, tuple) and ty[0] == "list")):
                        bad(n, "len of " + str(ty))
                    return b, f"(len {t})", "int"
                if f.id == "int" and len(n.args) == 1:
                    b, t, ty = self.E(n.args[0], env)
                    if ty != "int":
                        bad(n, "int() of non-int")
                    return b, t, "int"
                if n.keywords and f.id not in fn.funs:
                    bad(n, "keyword argument")
                if f.id == "bool" and len(n.args) == 1:
                    b, t, ty = self.E(n.args[0], env)
                    if ty == "bool":
                        return b, t, "bool"
                    if ty == "int":
                        return b, f"(truthy {t})", "bool"
                    if ty == T_FLAG:
                        return b, f"(flag_truthy {t})", "bool"     # bool(None) and bool(False) are False
                    bad(n, "bool() of " + str(ty))
                if f.id == "memoryview" and len(n.args) == 1:
                    # a read-only view of an immutable byte string: the same sequence of bytes
                    b, t, ty = self.E(n.args[0], env)
                    if ty != "bytes":
                        bad(n, "memoryview argument")
                    return b, t, "bytes"
                if f.id == "format":
                    # format(<int>, "x") and nothing else: the bare lower-case hex digits, "-" first for a negative int
                    # (py_format_x of Prelude/PyExtra.v; unlike hex(n)[2:], whose text for n < 0 is "x...")
                    if not (len(n.args) == 2 and not n.keywords and isinstance(n.args[1], ast.Constant)
                            and type(n.args[1].value) is str and n.args[1].value == "x"
                            and not isinstance(n.args[0], ast.Starred)):
                        bad(n, "format() other than format(<int>, \"x\")")
                    if "format" in env or "format" in fn.consts:
                        bad(n, "format is also a variable")
                    b, t, ty = self.E(n.args[0], env)
                    if ty != "int":
                        bad(n, "format(_, \"x\") of non-int")
                    return b, f"(py_format_x ({t}))", "hex"
                if f.id == "ord" and len(n.args) == 1:
                    b, t, ty = self.E(n.args[0], env)
                    if ty != "bytes":
                        bad(n, "ord argument")
                    x = fn.tmp()
                    return b + [(x, f"ord_bytes {t}")], x, "int"
                if f.id in HEADER_CLASSES:
                    k = HEADER_CLASSES[f.id]
                    if len(n.args) == 1 and isinstance(n.args[0], ast.Starred):
                        b, t, ty = self.E(n.args[0].value, env)
                        if ty != T_PAIR:
                            bad(n, "header constructor argument")
                        return b, f"({k}, (fst {t}), (snd {t}))", "header"
                    if len(n.args) == 2 and not any(isinstance(a, ast.Starred) for a in n.args):
                        ab, a, aty = self.E(n.args[0], env)
                        vb, v, vty = self.E(n.args[1], env)
                        if aty != "bytes" or vty != "bytes":
                            bad(n, "header constructor argument")
                        return ab + vb, f"({k}, {a}, {v})", "header"
                    bad(n, "header constructor")
                if f.id in CLASSES and not n.args and not n.keywords:
                    # C(): the object its __init__ builds
                    if f.id not in fn.inits:
                        bad(n, f"constructor of {f.id}")
                    return [], fn.inits[f.id], ("obj", f.id)
                if f.id == "deque" and not n.args and not n.keywords and isinstance(want, tuple) and want[0] == "list":
                    return [], "[]", want
                if f.id in ("bytearray", "bytes") and len(n.args) == 0:
                    return [], "[]", "bytes"
                if f.id in ("bytearray", "bytes") and len(n.args) == 1:
                    a0 = n.args[0]
                    if isinstance(a0, ast.Tuple) and a0.elts and not any(isinstance(e, ast.Starred) for e in a0.elts):
                        a0 = ast.copy_location(ast.List(elts=a0.elts, ctx=ast.Load()), a0)   # bytearray((a, b)) = bytearray([a, b])
                    b, t, ty = self.E(a0, env)
                    if ty == "bytes":
                        return b, t, "bytes"
                    if ty == ("list", "int"):
                        x = fn.tmp()
                        return b + [(x, f"bytearray_of {t}")], x, "bytes"
                    bad(n, "bytearray argument")
                if f.id in fn.funs:
                    cname, ptys, rty, *hh = fn.fun_entry(f.id)
                    if hh and hh[0] is not None:
                        fn.use(hh[0])
                    bs, ts = [], []
                    for a, pt in zip(n.args, ptys):
                        b, t, ty = self.E(a, env, pt)
                        bs += b
                        ts.append(f"({t})")
                    if len(n.args) != len(ptys) or n.keywords:
                        bad(n, "call arity")
                    if rty[0] == "total":
                        return bs, f"({cname} " + " ".join(ts) + ")", rty[1]
                    x = fn.tmp()
                    return bs + [(x, f"{cname} " + " ".join(ts))], x, rty[1]
            if isinstance(f, ast.Attribute):
                # bytes.fromhex(s)
                if isinstance(f.value, ast.Name) and f.value.id == "bytes" and f.attr == "fromhex" and len(n.args) == 1:
                    b, t, ty = self.E(n.args[0], env)
                    if ty != "hex":
                        bad(n, "fromhex argument")
                    x = fn.tmp()
                    return b + [(x, f"py_fromhex {t}")], x, "bytes"
                # s.rstrip("L") on a hex string: no such character in it
                if f.attr == "rstrip" and len(n.args) == 1 and isinstance(n.args[0], ast.Constant) and n.args[0].value == "L":
                    b, t, ty = self.E(f.value, env)
                    if ty != "hex":
                        bad(n, "rstrip receiver")
                    return b, t, "hex"
                # s.zfill(w) on a hex string (sign-aware left fill with "0": str_zfill of Prelude/PyExtra.v)
                if f.attr == "zfill":
                    if len(n.args) != 1 or n.keywords or isinstance(n.args[0], ast.Starred):
                        bad(n, "zfill arguments")
                    b, t, ty = self.E(f.value, env)
                    if ty != "hex":
                        bad(n, "zfill receiver")
                    wb, w, wt = self.E(n.args[0], env)
                    if wt != "int":
                        bad(n, "zfill width")     # (a bool is an int in Python; here it is another type: refused)
                    return b + wb, f"(str_zfill {t} ({w}))", "hex"
                # d.get(k)
                if f.attr == "get" and len(n.args) == 1:
                    db, d, dt = self.E(f.value, env)
                    if not (isinstance(dt, tuple) and dt[0] == "dict" and dt[1] == "bytes"):
                        bad(n, "get receiver")
                    kb, k, kt = self.E(n.args[0], env)
                    if kt != "bytes":
                        bad(n, "dict key type")
                    return db + kb, f"(assoc_bytes {k} {d})", ("opt", dt[2])
                # view: d.keys() of a dict seen as its items: each key carried with its value
                if f.attr == "keys" and not n.args and not n.keywords and isinstance(f.value, ast.Name) \
                        and isinstance(env.get(f.value.id), tuple) and env[f.value.id][0] == "dictview":
                    dt = env[f.value.id]
                    return [], f.value.id, ("list", ("dkey", dt[1], dt[2], f.value.id))
                # x.startswith(prefix) of byte strings
                if f.attr == "startswith" and len(n.args) == 1 and not n.keywords:
                    xb, x, xt = self.E(f.value, env)
                    pb, p_, pt = self.E(n.args[0], env)
                    if xt != "bytes" or pt != "bytes":
                        bad(n, "startswith")
                    return xb + pb, f"(bytes_startswith {x} {p_})", "bool"
                # view: s.encode("utf-8") of a pystr known to be a str: its UTF-8 encoding
                if f.attr == "encode" and len(n.args) == 1 and not n.keywords and isinstance(n.args[0], ast.Constant) \
                        and n.args[0].value == "utf-8" and isinstance(f.value, ast.Name) \
                        and is_view(env.get(f.value.id), "pystr"):
                    if not has_fact(env[f.value.id], "str"):
                        bad(n, "encode of a value that may not be a str")
                    return [], f"(pystr_payload {f.value.id})", "bytes"
                # x.decode("utf-8") of a byte string
                if f.attr == "decode" and len(n.args) == 1 and not n.keywords and isinstance(n.args[0], ast.Constant) \
                        and n.args[0].value == "utf-8":
                    b, t, ty = self.E(f.value, env)
                    if ty != "bytes":
                        bad(n, "decode receiver")
                    x = fn.tmp()
                    return b + [(x, f"py_decode_utf8 {t}")], x, "bytes"
                # b"".join([...]) / b"".join(list of byte strings)
                if f.attr == "join" and isinstance(f.value, ast.Constant) and f.value.value == b"" and len(n.args) == 1 \
                        and not n.keywords:
                    if isinstance(n.args[0], ast.List) and n.args[0].elts:
                        bs, ts = [], []
                        for e in n.args[0].elts:
                            b, t, ty = self.E(e, env)
                            if ty != "bytes":
                                bad(n, "join element")
                            bs += b
                            ts.append(t)
                        return bs, "(" + " ++ ".join(ts) + ")", "bytes"
                    b, t, ty = self.E(n.args[0], env)
                    if ty != ("list", "bytes"):
                        bad(n, "join argument")
                    return b, f"(concat {t})", "bytes"
                # h.__class__(name, value): a header of the class of h
                if f.attr == "__class__" and len(n.args) == 2 and not n.keywords:
                    hb, h, hty = self.E(f.value, env)
                    ab, a, aty = self.E(n.args[0], env)
                    vb, v, vty = self.E(n.args[1], env)
                    if hty != "header" or aty != "bytes" or vty != "bytes":
                        bad(n, "__class__ call")
                    return hb + ab + vb, f"((Decoder.h_class {h}), {a}, {v})", "header"
                # read-only method of self, of an object held by self, of a constant object of self
                mo = self.method_of(n)
                if mo is not None:
                    m, recv, _, _ = mo
                    if m.rw:
                        bad(n, "mutating method call in expression position")
                    bs, ts = self.call_args(m, n, env)
                    if m.total:
                        return bs, "(" + self.call_text(m, recv, ts) + ")", m.rty
                    x = fn.tmp()
                    return bs + [(x, self.call_text(m, recv, ts))], x, m.rty
            bad(n, "call")
        if isinstance(n, ast.ListComp):
            # [e for x in xs]: elements are computed left to right; the first exception ends it
            if len(n.generators) != 1:
                bad(n, "comprehension form")
            g = n.generators[0]
            if g.ifs or g.is_async or not isinstance(g.target, ast.Name):
                bad(n, "comprehension form")
            ib, it, ity = self.E(g.iter, env)
            if not (isinstance(ity, tuple) and ity[0] == "list"):
                bad(n, "comprehension over " + str(ity))
            env2 = dict(env)
            env2[g.target.id] = ity[1]
            eb, et, ety = self.E(n.elt, env2)
            if not eb:
                return ib, f"(map (fun {g.target.id} => {et}) {it})", ("list", ety)
            body = eb[-1][1] if et == eb[-1][0] else f"Ok ({et})"
            body = self.pure_binds(eb[:-1] if et == eb[-1][0] else eb, body)
            x = fn.tmp()
            return ib + [(x, f"traverse (fun {g.target.id} =>\n{body}) {it}")], x, ("list", ety)
        if isinstance(n, ast.JoinedStr) and len(n.values) == 1 and isinstance(n.values[0], ast.FormattedValue) \
                and n.values[0].conversion == -1 and isinstance(n.values[0].format_spec, ast.JoinedStr) \
                and len(n.values[0].format_spec.values) == 1 \
                and isinstance(n.values[0].format_spec.values[0], ast.Constant) \
                and type(n.values[0].format_spec.values[0].value) is str \
                and n.values[0].format_spec.values[0].value == "x":
            # f"{<int>:x}" exactly (one field, no text around it, no conversion, the constant specification "x")
            # is format(<int>, "x"); every other f-string stays a message (type "str": not usable as hex digits)
            b, t, ty = self.E(n.values[0].value, env)
            if ty != "int":
                bad(n, "f\"{_:x}\" of non-int")
            return b, f"(py_format_x ({t}))", "hex"
        if isinstance(n, ast.JoinedStr):
            bs = []
            for v in n.values:
                if isinstance(v, ast.FormattedValue):
                    # a format specification can raise (`{name!r:d}`: Unknown format code) and can contain further
                    # expressions that are evaluated (`{x:{f()}}`): none is accepted here (f"{n:x}" was taken above)
                    if v.format_spec is not None:
                        bad(n, "format specification in an f-string")
                    if v.conversion not in (-1, ord("r"), ord("s"), ord("a")):
                        bad(n, "conversion in an f-string")
                    b, t, ty = self.E(v.value, env)
                    bs += b
                    if ty == "int":
                        bs.append((fn.tmp(), f"py_format_d ({t})"))
                    elif not (ty in ("bytes", "str", "bool", "hex", "none") or (isinstance(ty, tuple) and ty[0] in ("obj", "list", "tuple", "opt"))
                              or ty == "header" or is_view(ty)):
                        bad(n, f"f-string field of type {ty}")
                elif not isinstance(v, ast.Constant):
                    bad(n, "f-string part")
            return bs, "tt", "str"
        bad(n, "expression")

    def cond(self, n, env):
        """truthiness of an expression in a test position: (bindings, bool text)"""
        b, t, ty = self.E(n, env)
        if ty == "bool":
            return b, t
        if ty == "int":
            return b, f"(truthy {t})"
        if ty in ("bytes", "hex") or (isinstance(ty, tuple) and ty[0] == "list"):
            return b, f"(negb (len {t} =? 0))"
        if isinstance(ty, tuple) and ty[0] == "opt" and isinstance(ty[1], tuple) and ty[1][0] == "tuple":
            return b, f"(opt_truthy {t})"
        if ty == T_FLAG:
            return b, f"(flag_truthy {t})"     # None and False are false
        if ty == "header":
            return b, "true"      # a pair is never empty
        if ty == ("opt", "header"):
            return b, f"(opt_truthy {t})"
        bad(n, f"truthiness of {ty}")

    # ---- statements (CPS)
    def assigned(self, stmts):
        out = []

        def add(x):
            if x not in out:
                out.append(x)

        def tgt(t):
            if isinstance(t, ast.Name):
                add(t.id)
            elif isinstance(t, ast.Tuple):
                for e in t.elts:
                    tgt(e)
            elif isinstance(t, ast.Attribute):
                base = t.value
                while isinstance(base, ast.Attribute):
                    base = base.value
                if isinstance(base, ast.Name):
                    add(base.id)
            elif isinstance(t, ast.Subscript):
                base = t.value
                while isinstance(base, (ast.Attribute, ast.Subscript)):
                    base = base.value
                if isinstance(base, ast.Name):
                    add(base.id)

        for s in ast.walk(ast.Module(body=list(stmts), type_ignores=[])):
            if isinstance(s, ast.Call) and isinstance(s.func, ast.Attribute):
                # a method call may mutate its receiver: the root of the receiver path is assigned
                # unless the method is known to be pure
                base = s.func.value
                while isinstance(base, ast.Attribute):
                    base = base.value
                if isinstance(base, ast.Name) and base.id not in ("log", "bytes", "HeaderTable"):
                    pure = s.func.attr in ("get", "rstrip", "startswith", "decode", "__class__", "zfill")
                    if isinstance(s.func.value, ast.Name) and s.func.value.id == "self" and s.func.attr in self.fn.methods:
                        pure = not self.fn.methods[s.func.attr].rw
                    elif base.id == "self" and self.method_of(s) is not None:
                        pure = not self.method_of(s)[0].rw
                    if not pure:
                        add(base.id)
            if isinstance(s, ast.Assign):
                for t in s.targets:
                    tgt(t)
            elif isinstance(s, ast.AugAssign):
                tgt(s.target)
            elif isinstance(s, ast.For):
                tgt(s.target)
        return out

    def falls_through(self, stmts):
        for s in stmts:
            if isinstance(s, (ast.Return, ast.Raise, ast.Break, ast.Continue)):
                return False
            if isinstance(s, ast.If) and s.orelse and not self.falls_through(s.body) and not self.falls_through(s.orelse):
                return False
            if isinstance(s, ast.While) and isinstance(s.test, ast.Constant) and s.test.value is True \
                    and not any(isinstance(x, ast.Break) for x in ast.walk(s)):
                return False
        return True

    def narrow(self, test):
        """(var, positive?) when the test is `x`, `x is not None`, `x is None`, `not x` on a name"""
        if isinstance(test, ast.Name):
            return test.id, True
        if isinstance(test, ast.Compare) and len(test.ops) == 1 and isinstance(test.left, ast.Name) \
                and isinstance(test.comparators[0], ast.Constant) and test.comparators[0].value is None:
            if isinstance(test.ops[0], ast.IsNot):
                return test.left.id, True
            if isinstance(test.ops[0], ast.Is):
                return test.left.id, False
        if isinstance(test, ast.UnaryOp) and isinstance(test.op, ast.Not) and isinstance(test.operand, ast.Name):
            return test.operand.id, False
        return None, None

    def B(self, stmts, env, k):
        if not stmts:
            return k(env)
        s, rest = stmts[0], stmts[1:]
        fn = self.fn

        def cont(env2):
            return self.B(rest, env2, k)

        if isinstance(s, ast.Pass):
            return cont(env)
        if isinstance(s, ast.Expr):
            v = s.value
            if isinstance(v, ast.Constant):  # docstring
                return cont(env)
            if isinstance(v, ast.Call) and isinstance(v.func, ast.Attribute):
                f = v.func
                if isinstance(f.value, ast.Name) and f.value.id == "log":
                    # the call is dropped, but what Python evaluates to make it must exist and not raise: the method is one
                    # of the level methods, the format a constant, every argument an expression the translator accepts
                    # (unknown or possibly unbound names are refused by E) whose evaluation cannot raise
                    if f.attr not in ("debug", "info", "warning", "error", "critical") or v.keywords \
                            or not v.args or not (isinstance(v.args[0], ast.Constant) and isinstance(v.args[0].value, str)):
                        bad(s, "log call form")
                    for a_ in v.args[1:]:
                        ab_, _t, _ty = self.E(a_, env)
                        if ab_:
                            bad(s, "log argument that can raise")
                    if REBOUND_LOG:
                        bad(s, "a log call, but `log` is not only the module's logger (modules: %s)" % sorted(REBOUND_LOG))
                    return cont(env)
                # self.<deque>.clear() / appendleft(x)
                if isinstance(f.value, ast.Attribute) and isinstance(f.value.value, ast.Name) \
                        and f.value.value.id == "self" and fn.cls and f.value.attr in CLASSES[fn.cls][1]:
                    fld, fty = CLASSES[fn.cls][1][f.value.attr]
                    if f.attr == "clear" and not v.args:
                        return f"let self := set_{fld} [] self in\n" + cont(env)
                    if f.attr == "appendleft" and len(v.args) == 1:
                        b, t, ty = self.E(v.args[0], env, fty[1])
                        return self.with_bindings(b, f"let self := set_{fld} ({t} :: self.({fld})) self in\n" + cont(env))
                    if f.attr == "append" and len(v.args) == 1 and not v.keywords and isinstance(fty, tuple) \
                            and fty[0] == "list":
                        if not self.rw():
                            bad(s, "mutation where self cannot change")
                        b, t, ty = self.E(v.args[0], env, fty[1])
                        return self.with_bindings(b, f"let self := set_{fld} (self.({fld}) ++ [{t}]) self in\n" + cont(env))
                # self.method(...), self.<object>.method(...) as a statement
                mo = self.method_of(v)
                if mo is not None:
                    m, recv, setter, kind = mo
                    bs, ts = self.call_args(m, v, env)
                    if m.total:
                        bad(s, "a value as a statement")
                    if self.loop and kind == "self":
                        bad(s, "method call statement inside a loop")
                    call = self.call_text(m, recv, ts)
                    if m.rw:
                        if kind == "const":
                            bad(s, "mutation of a constant object")
                        return self.with_bindings(bs, self.state_call(s, call, setter, "_", cont(env)))
                    return self.with_bindings(bs, self.bind(call, "_", cont(env)))
                # local.append(x)
                if isinstance(f.value, ast.Name) and f.attr == "append" and f.value.id in env and len(v.args) == 1:
                    nm = f.value.id
                    ty = env[nm]
                    if ty == "bytes" or (isinstance(ty, tuple) and ty[0] == "list"):
                        self.check_unshared_local(s, nm)
                    if ty == "bytes":
                        b, t, aty = self.E(v.args[0], env, "int")
                        return self.with_bindings(b, self.bind(f"append_byte {nm} ({t})", nm, cont(env)))
                    if isinstance(ty, tuple) and ty[0] == "list":
                        a0 = v.args[0]
                        mo = self.method_of(a0) if isinstance(a0, ast.Call) else None
                        if mo is not None and mo[0].rw:
                            # xs.append(recv.m(...)) for a mutating method m
                            m, recv, setter, kind = mo
                            if kind == "const" or (ty[1] is not None and ty[1] != m.rty):
                                bad(s, "appended mutating call")
                            bs, ts = self.call_args(m, a0, env)
                            x = fn.tmp()
                            env2 = dict(env)
                            env2[nm] = ("list", m.rty)
                            return self.with_bindings(bs, self.state_call(
                                s, self.call_text(m, recv, ts), setter, x, f"let {nm} := {nm} ++ [{x}] in\n" + cont(env2)))
                        b, t, aty = self.E(a0, env, ty[1])
                        env2 = dict(env)
                        env2[nm] = ("list", aty)     # the first element gives the type of a list that was []
                        return self.with_bindings(b, f"let {nm} := {nm} ++ [{t}] in\n" + cont(env2))
            if isinstance(v, ast.Call) and isinstance(v.func, ast.Name) and v.func.id in fn.funs:
                # f(...) for its effect (it can raise); its value is dropped
                b, t, ty = self.E(v, env)
                if not b:
                    return cont(env)
                return self.with_bindings(b[:-1], self.bind(b[-1][1], "_", cont(env))) if t == b[-1][0] \
                    else self.with_bindings(b, cont(env))
            bad(s, "expression statement")
        if isinstance(s, (ast.Assign, ast.AugAssign, ast.Return)) and s.value is not None:
            # x = <e with one call recv.m(...) of a mutating method inside>: the call is made first and its result
            # named, when that cannot be observed: the rest of e does not look at self and cannot raise
            top = s.value
            calls = [x for x in ast.walk(top) if isinstance(x, ast.Call) and x is not top and self.method_of(x) is not None
                     and self.method_of(x)[0].rw]
            if isinstance(s, ast.AugAssign) and isinstance(top, ast.Call) and self.method_of(top) is not None \
                    and self.method_of(top)[0].rw:
                calls = [top]
            if len(calls) == 1 and isinstance(s, (ast.Assign, ast.AugAssign)) \
                    and (isinstance(s, ast.AugAssign) and isinstance(s.target, ast.Name)
                         or isinstance(s, ast.Assign) and len(s.targets) == 1 and isinstance(s.targets[0], ast.Name)):
                call = calls[0]
                others = [x for x in ast.walk(top) if isinstance(x, ast.Name) and x.id == "self"
                          and not any(x is y for y in ast.walk(call))]
                if others:
                    bad(s, "mutating call inside an expression that reads self")
                m, recv, setter, kind = self.method_of(call)
                if kind == "const":
                    bad(s, "mutation of a constant object")
                fn.fresh += 1
                tmpname = f"r{fn.fresh}_"
                bs, ts = self.call_args(m, call, env)
                env2 = dict(env)
                env2[tmpname] = m.rty

                # (on a copy: the source tree may be translated again)
                top2 = copy.deepcopy(top)
                call2 = next(b_ for a_, b_ in zip(ast.walk(top), ast.walk(top2)) if a_ is call)

                class _Sub(ast.NodeTransformer):
                    def visit_Call(self_, node):
                        if node is call2:
                            return ast.copy_location(ast.Name(id=tmpname, ctx=ast.Load()), node)
                        return self_.generic_visit(node)
                if isinstance(s, ast.AugAssign):
                    val = ast.BinOp(left=_load(s.target), op=s.op, right=_Sub().visit(top2), lineno=s.lineno)
                    tgt_ = s.target
                else:
                    val, tgt_ = _Sub().visit(top2), s.targets[0]
                ast.fix_missing_locations(val)
                b2, txt, ty = self.E(val, env2, env.get(tgt_.id) if isinstance(env.get(tgt_.id), tuple)
                                     and env[tgt_.id][0] == "opt" else None)
                if b2:
                    bad(s, "mutating call inside an expression that can raise")
                env3 = dict(env)
                env3[tgt_.id] = ty
                return self.with_bindings(bs, self.state_call(s, self.call_text(m, recv, ts), setter, tmpname,
                                                              f"let {tgt_.id} := {txt} in\n" + cont(env3)))
        if isinstance(s, ast.AnnAssign) and s.value is None and isinstance(s.target, ast.Name):
            return cont(env)      # a declaration
        ann_want = None
        if isinstance(s, ast.AnnAssign) and s.value is not None and isinstance(s.target, ast.Name):
            if isinstance(s.value, ast.List) and not s.value.elts:
                ann_want = ann(s.annotation)
            s = ast.Assign(targets=[s.target], value=s.value, lineno=s.lineno)
        if isinstance(s, ast.Assign) and len(s.targets) == 1:
            t = s.targets[0]
            # x = recv.m(...), a, b = recv.m(...) for a mutating method m
            mo = self.method_of(s.value) if isinstance(s.value, ast.Call) else None
            if mo is not None and mo[0].rw:
                m, recv, setter, kind = mo
                if kind == "const":
                    bad(s, "mutation of a constant object")
                bs, ts = self.call_args(m, s.value, env)
                call = self.call_text(m, recv, ts)
                env2 = dict(env)
                if isinstance(t, ast.Name):
                    env2[t.id] = m.rty
                    return self.with_bindings(bs, self.state_call(s, call, setter, t.id, cont(env2)))
                if isinstance(t, ast.Tuple) and all(isinstance(e, ast.Name) for e in t.elts) \
                        and isinstance(m.rty, tuple) and m.rty[0] == "tuple" and len(m.rty[1]) == len(t.elts):
                    env2.update({e.id: x for e, x in zip(t.elts, m.rty[1])})
                    x = fn.tmp()
                    pat = "'(" + ", ".join(e.id for e in t.elts) + ")"
                    return self.with_bindings(bs, self.state_call(s, call, setter, x,
                                                                  f"let {pat} := {x} in\n" + cont(env2)))
                bad(s, "target of a mutating call")
            # a, b = self.<deque>.pop()
            if isinstance(s.value, ast.Call) and isinstance(s.value.func, ast.Attribute) and s.value.func.attr == "pop" \
                    and not s.value.args:
                rcv = s.value.func.value
                if not (isinstance(rcv, ast.Attribute) and isinstance(rcv.value, ast.Name) and rcv.value.id == "self"
                        and fn.cls and rcv.attr in CLASSES[fn.cls][1] and isinstance(t, ast.Tuple)
                        and all(isinstance(e, ast.Name) for e in t.elts)):
                    bad(s, "pop form")
                fld, fty = CLASSES[fn.cls][1][rcv.attr]
                names = [e.id for e in t.elts]
                ety = fty[1]
                if not (ety[0] == "tuple" and len(ety[1]) == len(names)):
                    bad(s, "pop unpacking")
                env2 = dict(env)
                env2.update(dict(zip(names, ety[1])))
                inner = f"let self := set_{fld} rest_ self in\n" + cont(env2)
                return self.bind(f"pop_right self.({fld})", "'((" + ", ".join(names) + "), rest_)", inner)
            if isinstance(t, ast.Name):
                want = env.get(t.id) if (t.id in env and isinstance(env[t.id], tuple) and env[t.id][0] == "opt") else None
                if want is None and t.id in self.ret_vars and isinstance(fn.ret_type, tuple) and fn.ret_type[0] == "opt":
                    want = fn.ret_type
                if want is None and ann_want is not None:
                    want = ann_want
                v_ = self.typeof_subject(s.value, env) if isinstance(s.value, ast.Call) else None
                if v_ is not None:
                    # view: t = type(v).  Nothing is emitted; the tests on t are tests on v, for as long as v
                    # keeps this type (an assignment to v gives it a new one, without the mark)
                    env2 = dict(env)
                    env2[t.id] = ("typeof", v_)
                    env2[v_] = with_fact(env[v_], ("tvar", t.id))
                    return cont(env2)
                if want is None and isinstance(s.value, ast.List) and not s.value.elts:
                    # x = []: the type of the elements is that of the first one appended
                    env2 = dict(env)
                    env2[t.id] = ("list", None)
                    return f"let {t.id} := [] in\n" + cont(env2)
                b, txt, ty = self.E(s.value, env, want)
                if isinstance(ty, tuple) and ty[0] == "iter":
                    self.check_one_shot(s, t.id)
                if ty == "noneval":
                    if not self.unify_ok:
                        bad(s, "None assigned to a variable of unknown type")
                    # the type is fixed where this branch joins the others (see the If case)
                    txt, ty = "None", ("opt", None)
                env2 = dict(env)
                env2[t.id] = ty
                return self.with_bindings(b, f"let {t.id} := {txt} in\n" + cont(env2))
            if isinstance(t, ast.Tuple) and all(isinstance(e, ast.Name) for e in t.elts):
                b, txt, ty = self.E(s.value, env)
                if not (isinstance(ty, tuple) and ty[0] == "tuple" and len(ty[1]) == len(t.elts)):
                    bad(s, "tuple unpacking")
                env2 = dict(env)
                env2.update({e.id: x for e, x in zip(t.elts, ty[1])})
                pat = "'(" + ", ".join(e.id for e in t.elts) + ")"
                return self.with_bindings(b, f"let {pat} := {txt} in\n" + cont(env2))
            if isinstance(t, ast.Attribute) and isinstance(t.value, ast.Name) and t.value.id == "self" and fn.cls \
                    and t.attr in CLASSES[fn.cls][1]:
                f, fty = CLASSES[fn.cls][1][t.attr]
                b, txt, ty = self.E(s.value, env, fty)
                return self.with_bindings(b, f"let self := set_{f} ({txt}) self in\n" + cont(env))
            if isinstance(t, ast.Attribute) and self.objpath(t.value) is not None:
                # recv.prop = v: the property setter of self / of an object held by self
                recv, cls, setter, kind = self.objpath(t.value)
                m = fn.classes[cls].setters.get(t.attr) if cls in fn.classes else None
                if m is None and kind == "field" and t.attr in CLASSES[cls][1] and self.rw():
                    # self.<object>.<attribute> = v: a plain attribute of the object held by self
                    f, fty = CLASSES[cls][1][t.attr]
                    b, txt, ty = self.E(s.value, env, fty)
                    return self.with_bindings(
                        b, f"let self := set_{setter} (set_{f} ({txt}) {recv}) self in\n" + cont(env))
                if m is None or kind == "const":
                    bad(s, "assignment target")
                b, txt, ty = self.E(s.value, env, m.ptys[0])
                call = self.call_text(m, recv, [f"({txt})"])
                return self.with_bindings(b, self.state_call(s, call, setter, "_", cont(env)))
            bad(s, "assignment target")
        if isinstance(s, ast.AugAssign) and isinstance(s.target, ast.Subscript):
            # x[0] |= v on a bytearray that nothing else refers to.  CPython loads x[0] (IndexError), then
            # evaluates v, then stores (ValueError outside 0..255): or_first has the first and the last,
            # and when v itself can raise the load is made explicit in front of it.
            tg = s.target
            if not (isinstance(tg.value, ast.Name) and isinstance(tg.slice, ast.Constant) and tg.slice.value == 0
                    and not isinstance(tg.slice.value, bool) and isinstance(s.op, ast.BitOr)
                    and env.get(tg.value.id) == "bytes"):
                bad(s, "augmented assignment target")
            nm = tg.value.id
            self.check_private_bytearray(s, nm)
            b, txt, ty = self.E(s.value, env)
            if ty != "int":
                bad(s, "operand of |=")
            pre = [(fn.tmp(), f"index_Z {nm} (0)")] if b else []
            return self.with_bindings(pre + b, self.bind(f"or_first {nm} ({txt})", nm, cont(env)))
        if isinstance(s, ast.AugAssign):
            if not isinstance(s.target, (ast.Name, ast.Attribute)):
                bad(s, "augmented assignment target")
            new = ast.Assign(targets=[s.target],
                             value=ast.BinOp(left=_load(s.target), op=s.op, right=s.value, lineno=s.lineno),
                             lineno=s.lineno)
            return self.B([new] + rest, env, k)
        if isinstance(s, ast.Return):
            if s.value is None:
                return self.ret("tt")
            mo = self.method_of(s.value) if isinstance(s.value, ast.Call) else None
            if mo is not None and mo[0].rw:
                # return recv.m(...) for a mutating method m
                m, recv, setter, kind = mo
                if kind == "const" or m.rty != fn.ret_type:
                    bad(s, "returned mutating call")
                bs, ts = self.call_args(m, s.value, env)
                x = fn.tmp()
                return self.with_bindings(bs, self.state_call(s, self.call_text(m, recv, ts), setter, x, self.ret(x)))
            b, txt, ty = self.E(s.value, env, fn.ret_type)
            return self.with_bindings(b, self.ret(txt))
        if isinstance(s, ast.Raise):
            exc = s.exc
            if not (isinstance(exc, ast.Call) and isinstance(exc.func, ast.Name) and exc.func.id in EXN):
                bad(s, "raise form")
            if exc.keywords or any(isinstance(a, ast.Starred) for a in exc.args):
                bad(s, "keyword or starred arguments of an exception")
            if s.cause is not None and not (isinstance(s.cause, ast.Constant) and s.cause.value is None):
                # `raise E(...) from <expr>` evaluates <expr>: only None is accepted here (the handlers' `from err` are
                # checked where handlers are translated)
                bad(s, "raise ... from an expression")
            bs = []
            for a in exc.args:
                if isinstance(a, ast.Name) and env.get(a.id) == "str":
                    continue
                if isinstance(a, ast.Constant) and isinstance(a.value, str):
                    continue
                b, _, ty = self.E(a, env)
                if ty != "str":
                    bad(s, "exception argument")
                bs += b
            return self.with_bindings(bs, self.raise_(exc.func.id))
        if isinstance(s, ast.Break):
            return f"Break {self.loop[-1]}"
        if isinstance(s, ast.Continue):
            if not self.loop:
                bad(s, "continue outside a loop")
            return f"Next {self.loop[-1]}"
        if isinstance(s, ast.If) and self.static_test(s.test, env) is not None:
            # view: the facts known here decide the test; the other arm can only be reached by values
            # outside the typed view and is left out
            st = self.static_test(s.test, env)
            live = s.body if st else s.orelse
            note = (f"(* typed view: the test at line {s.lineno} is {'true' if st else 'false'} here; "
                    f"its other arm is outside the view and left out *)\n")
            return note + self.B(list(live) + rest, env, k)
        if isinstance(s, ast.If):
            var, positive = self.narrow(s.test)
            env_then, env_else = self.refine(s.test, env)
            ft_then, ft_else = self.falls_through(s.body), (self.falls_through(s.orelse) if s.orelse else True)
            dead = lambda e: "(* unreachable *) tt"
            # Join point: when both arms can fall through into a continuation that is expensive to
            # duplicate, the continuation becomes a local function of the variables the arms assign.
            big = any(isinstance(x, (ast.While, ast.For, ast.Try)) for r in rest for x in ast.walk(r)) or len(rest) > 2
            # ... and also when an arm sets a variable to None whose type only the other arms tell
            # (x = None / x = <value>): the join is where x becomes an option.
            unify = any(isinstance(x, ast.Assign) and len(x.targets) == 1 and isinstance(x.targets[0], ast.Name)
                        and isinstance(x.value, ast.Constant) and x.value.value is None
                        and not (isinstance(env.get(x.targets[0].id), tuple) and env[x.targets[0].id][0] == "opt")
                        and not (x.targets[0].id in self.ret_vars and isinstance(fn.ret_type, tuple)
                                 and fn.ret_type[0] == "opt")
                        for st in s.body + s.orelse for x in ast.walk(st))
            join = ft_then and ft_else and (big or unify) and rest
            if join:
                fn.fresh += 1
                kname = f"k{fn.fresh}_"
                exits = []

                def jk(e, kname=kname, exits=exits):
                    exits.append(_merge(env, e))
                    return f"{kname} @@JV:{kname}:{len(exits) - 1}@@"
                then_k = else_k = jk
                if unify:
                    self.unify_ok += 1
            else:
                then_k = (lambda e: cont(_merge(env, e))) if ft_then else dead
                else_k = (lambda e: cont(_merge(env, e))) if ft_else else dead
            if var is not None and var in env and isinstance(env[var], tuple) and env[var][0] == "opt":
                # Optional narrowing: inside the non-None arm the name denotes the value
                inner = env[var][1]
                if inner is None:
                    bad(s, "test of a variable that is None before its type is known")
                if (isinstance(s.test, ast.Name) or isinstance(s.test, ast.UnaryOp)) \
                        and not (inner == "header" or (isinstance(inner, tuple)
                                                                              and inner[0] == "tuple" and inner[1])):
                    bad(s, "truthiness of an optional whose value can be false")
                some_body, none_body = (s.body, s.orelse) if positive else (s.orelse, s.body)
                some_k, none_k = (then_k, else_k) if positive else (else_k, then_k)
                reads = any(isinstance(x, ast.Name) and x.id == var for st in some_body for x in ast.walk(st))
                if not positive and not s.orelse and not ft_then \
                        and (not self.loop or all(var not in lv for lv in self.loopvars)) \
                        and any(isinstance(x, ast.Name) and x.id == var for st in rest for x in ast.walk(st)):
                    # `if x is None: <leaves>`: from here on the name denotes the value
                    env_some = dict(env)
                    env_some[var] = inner
                    a = some_k(env_some)
                    somepat = var
                elif reads:
                    env_some = dict(env)
                    env_some[var] = inner

                    def leave(e, k_=some_k):
                        # leaving the arm: the name denotes the optional again
                        if e.get(var) != inner:
                            return k_(e)
                        e2 = dict(e)
                        live = {x.id for r in rest for x in ast.walk(r) if isinstance(x, ast.Name)}
                        if var in live or any(var in lv for lv in self.loopvars):
                            e2[var] = env[var]
                            return f"let {var} := Some {var} in\n" + k_(e2)
                        del e2[var]
                        return k_(e2)
                    a = self.B(some_body, env_some, leave)
                    somepat = var
                else:
                    a = self.B(some_body, env, some_k) if some_body else some_k(env)
                    somepat = "_"
                b_ = self.B(none_body, env, none_k) if none_body else none_k(env)
                text = f"match {var} with\n| Some {somepat} =>\n{a}\n| None =>\n{b_}\nend"
                cb = []
            else:
                cb, c = self.cond(s.test, env)
                a = self.B(s.body, env_then, then_k)
                b_ = self.B(s.orelse, env_else, else_k) if s.orelse else else_k(env_else)
                text = f"if {c}\nthen {a}\nelse {b_}"
            if join:
                if unify:
                    self.unify_ok -= 1
                cands = self.assigned(s.body + s.orelse)
                # self is not in the environments: it is a parameter of the join exactly when an arm can
                # change it (otherwise the continuation would see the self of before the If)
                jv = [v for v in cands if (self.rw() if v == "self" else all(v in e for e in exits))]
                if "self" in cands and not self.rw():
                    bad(s, "self assigned in a read-only method")
                envk = dict(env)
                typed = {}
                for v in jv:
                    if v == "self":
                        continue
                    tys = [e[v] for e in exits]
                    if all(t == tys[0] for t in tys) and tys[0] != ("opt", None):
                        envk[v] = tys[0]
                        continue
                    if all(is_view(t) and t[1] == tys[0][1] for t in tys):
                        # view: what is known on every path
                        envk[v] = view(tys[0][1], frozenset.intersection(*[t[2] for t in tys]))
                        continue
                    known = [t for t in tys if t != ("list", None)]
                    if all(isinstance(t, tuple) and t[0] == "list" for t in tys) and known \
                            and all(t == known[0] for t in known):
                        envk[v] = known[0]      # [] on some paths
                        continue
                    # T in some arms, None (or an option of T) in others: an option of T
                    base = [t for t in tys if not (isinstance(t, tuple) and t[0] == "opt")]
                    base += [t[1] for t in tys if isinstance(t, tuple) and t[0] == "opt" and t[1] is not None]
                    if not base or any(t != base[0] for t in base):
                        bad(s, f"the arms give {v} the types {tys}")
                    envk[v] = typed[v] = ("opt", base[0])
                ktext = cont(envk)
                # binders carry their type where Coq could not infer it from the body (an option made at this
                # join, the scrutinee of an `if`)
                params = " ".join(f"({v} : {cty(envk[v])})" if v in typed or envk.get(v) == "bool" else v
                                  for v in jv) if jv else "(_ : unit)"
                for i, e in enumerate(exits):
                    args = [f"(Some {v})" if v in typed and e[v] == typed[v][1] else v for v in jv]
                    text = text.replace(f"@@JV:{kname}:{i}@@", " ".join(args) if jv else "tt")
                text = f"let {kname} := fun {params} =>\n{ktext} in\n{text}"
            return self.with_bindings(cb, text)
        if isinstance(s, ast.For):
            part = self.partition_loop(s, env)
            if part is not None:
                text, env2 = part
                return text + cont(env2)
        if isinstance(s, ast.While) and isinstance(s.test, ast.Constant) and s.test.value is True:
            # A variable that is not bound before the loop, that the code after the loop reads, and that every
            # iteration assigns before it does anything else (`while (x := e) ...:` after desugaring: the leading
            # `x = e`): it is bound on every path that leaves the loop normally, so it belongs to the loop state.
            # The state needs a value for it at the entry, which nothing can read: the default of its type.
            used_after = {x.id for r in rest for x in ast.walk(r) if isinstance(x, ast.Name)}
            late = []
            for st in s.body:
                if not (isinstance(st, ast.Assign) and len(st.targets) == 1 and isinstance(st.targets[0], ast.Name)):
                    break
                v = st.targets[0].id
                if v not in env and v in used_after and v not in [x for x, _, _ in late]:
                    saved = fn.fresh          # the expression is translated here for its type only
                    _b, _t, ty = self.E(st.value, env)
                    fn.fresh = saved
                    dflt = {"int": "0", "bool": "false", "bytes": "[]"}.get(ty)
                    if dflt is None:
                        bad(st, f"variable {v} first assigned in a loop and read after it: no default for its type")
                    late.append((v, ty, dflt))
            if late:
                env2 = dict(env)
                pre = ""
                for v, ty, dflt in late:
                    env2[v] = ty
                    pre += f"let {v} := {dflt} in\n"
                return pre + self.B(stmts, env2, k)
        if isinstance(s, (ast.While, ast.For)):
            vars_ = [v for v in self.assigned(s.body) if v in env or v == "self"]
            if isinstance(s, ast.For):
                tnames = {x.id for x in ast.walk(s.target) if isinstance(x, ast.Name)}
                for t_ in sorted(tnames):
                    # after the loop a target holds the LAST element (or its old value when nothing was iterated): the
                    # translation binds it inside the body only, so it must not be a variable that exists outside
                    if t_ in env or any(isinstance(x, ast.Name) and x.id == t_ for r in rest for x in ast.walk(r)):
                        bad(s, f"loop target {t_} is also a variable outside the loop")
                vars_ = [v for v in vars_ if v not in tnames]
            if self.rw() and "self" not in vars_:
                vars_.append("self")
            if not self.rw() and "self" in vars_:
                bad(s, "loop mutates self in a read-only method")
            if any(is_view(env.get(v)) and env[v][2] for v in vars_):
                env = dict(env)
                for v in vars_:
                    if is_view(env.get(v)):
                        env[v] = view(env[v][1])
            if isinstance(s, ast.For) and "self" in self.assigned(s.body) \
                    and any(isinstance(x, ast.Name) and x.id == "self" for x in ast.walk(s.iter)):
                bad(s, "loop over a part of self that its body may change")
            pat = _tuple(vars_)
            binder = _binder(vars_)
            env0 = env
            grown = {}       # lists that are [] before the loop: the element type the body appends

            def nxt(e):
                # the next iteration starts with the variables as this one leaves them: same types
                for v in vars_:
                    a, b_ = env0.get(v), e.get(v)
                    if a == ("list", None) and isinstance(b_, tuple) and b_[0] == "list":
                        if grown.setdefault(v, b_) != b_:
                            bad(s, f"the loop body gives the list {v} two element types")
                        continue
                    if v == "self" or a == b_ or (is_view(a) and is_view(b_) and a[1] == b_[1]):
                        continue
                    bad(s, f"the loop body changes the type of {v} from {a} to {b_}")
                return f"Next {pat}"
            if s.orelse:
                bad(s, "loop else")
            if self.loop:
                bad(s, "nested loop")
            if isinstance(s, ast.While):
                fn.nloops += 1
                fuel = FUEL.get(fn.name) or bad(s, "no fuel hint for this loop")
                self.loop.append(pat)
                self.loopvars.append(vars_)
                if isinstance(s.test, ast.Constant) and s.test.value is True:
                    body = self.B(s.body, env, nxt)
                else:
                    cb, c = self.cond(s.test, env)
                    if cb:
                        bad(s, "raising loop test")
                    body = f"if {c} then\n{self.B(s.body, env, nxt)}\nelse Break {pat}"
                self.loop.pop()
                self.loopvars.pop()
                head = f"while_fuel ({fuel}) (fun {binder} =>\n{body}) {pat}"
            else:
                it, elt_binder, pre, env_body = self.iterator(s, env)
                self.loop.append(pat)
                self.loopvars.append(vars_)
                body = pre + self.B(s.body, env_body, nxt)
                self.loop.pop()
                self.loopvars.pop()
                head = f"for_each ({it}) (fun {elt_binder} {binder} =>\n{body}) {pat}"
            if grown:
                env = dict(env)
                env.update(grown)
            after = cont(env)
            if self.rw():
                return (f"match {head} with\n| Done {pat} =>\n{after}\n| Returned r_ {pat} => (Ok r_, self)\n"
                        f"| Raised e_ {pat} => (Err e_, self)\n| Exhausted {pat} => (Err OutOfFuel, self)\nend")
            return (f"match {head} with\n| Done {pat} =>\n{after}\n| Returned r_ _ => Ok r_\n"
                    f"| Raised e_ _ => Err e_\n| Exhausted _ => Err OutOfFuel\nend")
        if isinstance(s, ast.Try):
            if len(s.handlers) != 1 or s.orelse or s.finalbody or self.loop:
                bad(s, "try form")
            # In a mutating method the block is translated as a plain outcome: it must leave self alone.
            if self.rw() and "self" in self.assigned(s.body):
                bad(s, "try block that may change self")
            # `return e` may only be the last statement of the block (then the block is the result)
            rets = [x for st in s.body for x in ast.walk(st) if isinstance(x, ast.Return)]
            returning = bool(rets)
            if returning and not (len(rets) == 1 and s.body[-1] is rets[0] and rets[0].value is not None):
                bad(s, "return inside try")
            h = s.handlers[0]
            if not (isinstance(h.type, ast.Name) and h.type.id in EXN and isinstance(h.body[-1], ast.Raise)
                    and isinstance(h.body[-1].exc, ast.Call) and isinstance(h.body[-1].exc.func, ast.Name)
                    and h.body[-1].exc.func.id in EXN):
                bad(s, "handler form")
            for hs in h.body[:-1]:
                if not (isinstance(hs, ast.Assign) and isinstance(hs.value, (ast.JoinedStr, ast.Constant))):
                    bad(hs, "statement in handler")
                # the message is not translated: nothing in it may be able to raise (repr / str of a byte string or of a
                # message cannot; an index, an attribute of something else, an integer of 4300 digits can)
                for fv in (hs.value.values if isinstance(hs.value, ast.JoinedStr) else []):
                    if isinstance(fv, ast.FormattedValue) and not (
                            isinstance(fv.value, ast.Name) and fv.format_spec is None
                            and env.get(fv.value.id) in ("bytes", "str")):
                        bad(hs, "handler message that formats something other than a byte string")
            if len(h.body[-1].exc.args) > 1 or any(not isinstance(a, (ast.Name, ast.Constant)) for a in h.body[-1].exc.args) \
                    or h.body[-1].exc.keywords:
                bad(s, "handler raise arguments")
            hc = h.body[-1].cause
            if hc is not None and not ((isinstance(hc, ast.Name) and hc.id == h.name) or (isinstance(hc, ast.Constant) and hc.value is None)):
                bad(s, "handler raise ... from an expression")
            to = h.body[-1].exc.func.id
            if not EXC_BASES:
                bad(s, "handler: the class hierarchy of exceptions.py could not be read")
            if handler_is_leaf(h.type.id):
                HANDLER_LEAVES.add(h.type.id)
                catch_ = f"catch {h.type.id} {to}"
            else:
                # `except C:` also catches the subclasses of C: the relation is the regenerated one
                catch_ = f"Exn.catch_h (Exn.hierarchy GExn.EXC_BASES) {h.type.id} {to}"
            if returning:
                self.pure += 1
                inner = self.B(s.body, env, lambda e: bad(s, "try block"))
                self.pure -= 1
                x = fn.tmp()
                return self.bind(f"{catch_} (\n{inner})", x, self.ret(x))
            used_after = {x.id for r in rest for x in ast.walk(r) if isinstance(x, ast.Name)}
            vars_ = [v for v in self.assigned(s.body) if v in used_after]
            pat = _tuple(vars_)
            envb = dict(env)
            if self.rw():
                self.pure += 1
                inner = self.B(s.body, env, lambda e: (envb.update({v: e[v] for v in vars_}), f"Ok {pat}")[1])
                self.pure -= 1
                return self.bind(f"{catch_} (\n{inner})", _binder(vars_), cont(envb))
            inner = self.B(s.body, env, lambda e: (envb.update({v: e[v] for v in vars_}), f"Ok {pat}")[1])
            return f"{_binder(vars_)} <- {catch_} (\n{inner}) ;;\n" + cont(envb)
        bad(s, "statement")

    def partition_loop(self, s, env):
        """NORMALISATION.  `for x in xs: if c: a.append(x) [else: b.append(x)]` with a, b local lists that neither xs
        nor c mention, c a test that cannot raise and has no effect: a grows by the elements of xs that satisfy c, b by
        the others, each in the order of xs -- rendered with `filter` (what `sorted` on a boolean key, a comprehension
        with a condition, or this loop all mean).  None when the statement is not of that form."""
        if s.orelse or not isinstance(s.target, ast.Name) or len(s.body) != 1 or not isinstance(s.body[0], ast.If):
            return None
        x = s.target.id
        iff = s.body[0]

        def appended(stmts):
            if len(stmts) != 1 or not isinstance(stmts[0], ast.Expr):
                return None
            c = stmts[0].value
            if (isinstance(c, ast.Call) and isinstance(c.func, ast.Attribute) and c.func.attr == "append"
                    and isinstance(c.func.value, ast.Name) and len(c.args) == 1 and not c.keywords
                    and isinstance(c.args[0], ast.Name) and c.args[0].id == x):
                return c.func.value.id
            return None
        a = appended(iff.body)
        b = appended(iff.orelse) if iff.orelse else None
        if a is None or (iff.orelse and b is None) or a == b:
            return None
        lists = [v for v in (a, b) if v is not None]
        for v in lists:
            t = env.get(v)
            if not (isinstance(t, tuple) and t[0] == "list") or v == x:
                return None
        for v in lists:
            self.check_unshared_local(s, v)
        mentioned = {n.id for part in (s.iter, iff.test) for n in ast.walk(part) if isinstance(n, ast.Name)}
        if mentioned & set(lists) or x in {n.id for n in ast.walk(s.iter) if isinstance(n, ast.Name)}:
            return None
        ib, it, ity = self.E(s.iter, env)
        if ib or not (isinstance(ity, tuple) and ity[0] == "list" and ity[1] is not None):
            return None
        env_b = dict(env)
        pat = self.pattern(s.target, ity[1], env_b)
        cb, c = self.cond(iff.test, env_b)
        if cb:
            return None
        env2 = dict(env)
        text = ""
        for v, test in ((a, c), (b, f"negb ({c})")):
            if v is None:
                continue
            t = env[v]
            if t[1] is not None and t != ity:
                return None
            sel = f"(filter (fun {pat} => {test}) {it})"
            text += f"let {v} := ({v} ++ {sel}) in\n"
            env2[v] = ity
        if x in env:
            return None      # (the loop variable would stay bound to the last element)
        return text, env2

    def generator(self, fd, env):
        """a generator function whose only yield is the body of a for loop that ends the function:
        what it yields, in order -- [e for x in xs].  (When its body runs is not observable: the function is
        translated as a plain value, so it cannot raise, and it touches nothing but its own locals.)"""
        ys = [x for x in ast.walk(fd) if isinstance(x, (ast.Yield, ast.YieldFrom))]
        last = fd.body[-1] if fd.body else None
        if not (len(ys) == 1 and isinstance(ys[0], ast.Yield) and isinstance(last, ast.For) and not last.orelse
                and len(last.body) == 1 and isinstance(last.body[0], ast.Expr) and last.body[0].value is ys[0]
                and ys[0].value is not None and isinstance(last.target, ast.Name)
                and not any(isinstance(x, ast.Return) for x in ast.walk(fd))):
            bad(fd, "generator form")
        rt = self.fn.ret_type
        if not (isinstance(rt, tuple) and rt[0] == "iter"):
            bad(fd, "generator result type")

        def tail(e):
            ib, it, ity = self.E(last.iter, e)
            if ib or not (isinstance(ity, tuple) and ity[0] == "list"):
                bad(last, "generator loop")
            e2 = dict(e)
            e2[last.target.id] = ity[1]
            yb, y, yt = self.E(ys[0].value, e2, rt[1])
            if yb:
                bad(last, "yielded value that can raise")
            return f"(map (fun {last.target.id} => {y}) {it})"
        return self.B(fd.body[:-1], env, tail)

    def check_one_shot(self, node, nm):
        """nm holds an iterator (iter(...), a generator): it can be consumed once.  Every use of nm is the
        iterable of a for loop that is not inside another loop, and no path runs two of them -- here,
        simply: there is exactly one use"""
        fn = self.fn
        parents = {}
        for p in ast.walk(fn.fd):
            for c in ast.iter_child_nodes(p):
                parents[c] = p
        uses = [x for x in ast.walk(fn.fd) if isinstance(x, ast.Name) and x.id == nm and isinstance(x.ctx, ast.Load)]
        if len(uses) != 1 or not (isinstance(parents.get(uses[0]), ast.For) and parents[uses[0]].iter is uses[0]):
            bad(node, f"the iterator {nm} is not used exactly once, by a for loop")
        p = parents[parents[uses[0]]]
        while p is not fn.fd:
            if isinstance(p, (ast.For, ast.While, ast.FunctionDef, ast.Lambda, ast.ListComp)):
                bad(node, f"the iterator {nm} is used inside a loop")
            p = parents[p]

    def bound_here(self):
        """every name the function being translated binds (parameters, assignment / loop / with / except targets,
        `:=`, nested definitions)"""
        fd = self.fn.fd
        if fd is None:
            return set()
        if getattr(self, "_bound", None) is None or self._bound[0] is not fd:
            out = {a.arg for a in ast.walk(fd) if isinstance(a, ast.arg)}
            out |= {x.id for x in ast.walk(fd) if isinstance(x, ast.Name) and not isinstance(x.ctx, ast.Load)}
            out |= {x.name for x in ast.walk(fd) if isinstance(x, (ast.FunctionDef, ast.ClassDef)) and x is not fd}
            out |= {x.name for x in ast.walk(fd) if isinstance(x, ast.ExceptHandler) and x.name}
            self._bound = (fd, out)
        return self._bound[1]

    def check_unshared_local(self, node, nm):
        """nm is a local list / bytearray that is changed in place (append ...): the translation treats it as a VALUE that
        is rebound, which is what Python does only as long as no second reference to the object exists.  Refused: nm
        is a parameter; `y = nm` (also inside a display, a conditional expression, `:=`); nm stored into an attribute,
        an item or a container (`self.x = nm`, `d[k] = nm`, `ys.append(nm)`), passed to a method of another object,
        yielded, or captured by a lambda / nested function / comprehension that outlives the statement."""
        fn = self.fn
        if fn.fd is None:
            bad(node, f"in-place update of {nm}: no function body to check for sharing")
        if nm in [a.arg for a in fn.fd.args.args] + ([fn.fd.args.vararg.arg] if fn.fd.args.vararg else []):
            bad(node, f"in-place update of the parameter {nm}")
        parents = {}
        for p in ast.walk(fn.fd):
            for c in ast.iter_child_nodes(p):
                parents[c] = p
        for x in ast.walk(fn.fd):
            # ... and the object must be born in this function: every binding of nm is a display, a comprehension, the
            # result of a constructor / concatenation / slice -- never another name, an attribute or an element
            if isinstance(x, ast.Name) and x.id == nm and not isinstance(x.ctx, ast.Load):
                p = parents.get(x)
                v = p.value if isinstance(p, (ast.Assign, ast.AnnAssign)) and (getattr(p, "targets", None) == [x] or getattr(p, "target", None) is x) else None
                if isinstance(p, ast.AugAssign) and p.target is x:
                    continue
                fresh = isinstance(v, (ast.List, ast.ListComp, ast.Constant)) or \
                    (isinstance(v, ast.Call) and isinstance(v.func, ast.Name) and v.func.id in ({"bytearray", "list", "bytes", "sorted"} | set(fn.bytearray_funs))) or \
                    (isinstance(v, ast.BinOp) and isinstance(v.op, ast.Add)) or \
                    (isinstance(v, ast.Subscript) and isinstance(v.slice, ast.Slice))
                if not fresh:
                    bad(node, f"{nm} is changed in place but is not known to be a fresh object (line {x.lineno})")
        PURE = {"bytes", "bytearray", "len", "list", "tuple", "sorted", "enumerate", "bool", "sum", "min", "max", "any", "all"}
        for x in ast.walk(fn.fd):
            if not (isinstance(x, ast.Name) and x.id == nm and isinstance(x.ctx, ast.Load)):
                continue
            p = parents.get(x)
            ok = False
            if isinstance(p, ast.Attribute) and p.value is x and isinstance(parents.get(p), ast.Call) \
                    and parents[p].func is p:
                ok = True                      # nm.method(...)
            elif isinstance(p, ast.Call) and x in p.args and not p.keywords and (
                    (isinstance(p.func, ast.Name) and p.func.id in PURE)
                    or (isinstance(p.func, ast.Attribute) and p.func.attr == "join" and isinstance(p.func.value, ast.Constant))):
                ok = True                      # bytes(nm), len(nm), b"".join(nm): read, not kept
            elif isinstance(p, ast.Subscript) and p.value is x:
                ok = True                      # nm[i], nm[a:b] (a slice of a list / bytearray is a copy), nm[0] |= m
            elif isinstance(p, ast.Return) and p.value is x:
                ok = True                      # the last use
            elif isinstance(p, (ast.For, ast.comprehension)) and p.iter is x:
                ok = True
            elif isinstance(p, (ast.If, ast.While, ast.IfExp)) and p.test is x:
                ok = True
            elif isinstance(p, ast.UnaryOp) and isinstance(p.op, ast.Not):
                ok = True
            elif isinstance(p, (ast.Compare, ast.BinOp, ast.BoolOp)) and not (isinstance(p, ast.BoolOp)):
                ok = True                      # a comparison or `nm + other` (a new object)
            if not ok:
                bad(node, f"{nm} is changed in place and also used where it could get a second reference (line {x.lineno})")
            q = x
            while q in parents:
                q = parents[q]
                if isinstance(q, (ast.Lambda, ast.FunctionDef, ast.GeneratorExp)) and q is not fn.fd:
                    bad(node, f"{nm} is changed in place and also captured by a nested scope")

    def check_private_bytearray(self, node, nm):
        """nm is a local bytearray with no other reference to it: every assignment to it is the result of
        a function that returns a fresh bytearray (or bytearray(...)), and it is only ever read by
        bytes(nm), len(nm) and nm[0] |= ...  -- so that mutating it in place is rebinding it"""
        fn = self.fn
        if fn.fd is None or nm in [a.arg for a in fn.fd.args.args]:
            bad(node, "in-place update of a parameter")
        parents = {}
        for p in ast.walk(fn.fd):
            for c in ast.iter_child_nodes(p):
                parents[c] = p
        for x in ast.walk(fn.fd):
            if not (isinstance(x, ast.Name) and x.id == nm):
                continue
            p = parents.get(x)
            if isinstance(x.ctx, ast.Store):
                v = p.value if isinstance(p, ast.Assign) and len(p.targets) == 1 and p.targets[0] is x else None
                if not (isinstance(v, ast.Call) and isinstance(v.func, ast.Name)
                        and (v.func.id in fn.bytearray_funs or v.func.id == "bytearray")):
                    bad(node, f"{nm} is not known to be a fresh bytearray")
            elif isinstance(p, ast.Call) and isinstance(p.func, ast.Name) and p.func.id in ("bytes", "len") \
                    and p.args == [x] and not p.keywords:
                pass
            elif isinstance(p, ast.Subscript) and p.value is x and isinstance(parents.get(p), ast.AugAssign) \
                    and parents[p].target is p:
                pass
            else:
                bad(node, f"{nm} may be shared")

    def iterator(self, s, env):
        """for-loop header: (iterated list, element binder, prefix text, body env)"""
        it, tgt = s.iter, s.target
        env_body = dict(env)
        if isinstance(it, ast.Call) and isinstance(it.func, ast.Name) and it.func.id == "enumerate" \
                and len(it.args) in (1, 2):
            b, t, ty = self.E(it.args[0], env)
            start = "0"
            if len(it.args) == 2:
                sb, start, sty = self.E(it.args[1], env)
                b = b + sb
                if sty != "int":
                    bad(s, "enumerate start")
            if b or not (isinstance(ty, tuple) and ty[0] == "list"):
                bad(s, "enumerate argument")
            if not (isinstance(tgt, ast.Tuple) and len(tgt.elts) == 2 and isinstance(tgt.elts[0], ast.Name)):
                bad(s, "enumerate target")
            env_body[tgt.elts[0].id] = "int"
            p2 = self.pattern(tgt.elts[1], ty[1], env_body)
            return f"enumerate_from {start} {t}", f"'({tgt.elts[0].id}, {p2})", "", env_body
        b, t, ty = self.E(it, env)
        if b:
            bad(s, "raising iterator expression")
        if ty == "bytes" and isinstance(tgt, ast.Name):
            env_body[tgt.id] = "int"
            return t, f"{tgt.id}_b", f"let {tgt.id} := bz {tgt.id}_b in\n", env_body
        if isinstance(ty, tuple) and ty[0] in ("list", "iter") and ty[1] is not None:
            p = self.pattern(tgt, ty[1], env_body)
            return t, (p if p.isidentifier() else "'" + p), "", env_body
        bad(s, "iterator type")

    def pattern(self, tgt, ty, env):
        if isinstance(tgt, ast.Name):
            env[tgt.id] = ty
            return tgt.id
        if isinstance(tgt, ast.Tuple) and isinstance(ty, tuple) and ty[0] == "tuple" and len(ty[1]) == len(tgt.elts):
            return "(" + ", ".join(self.pattern(e, t, env) for e, t in zip(tgt.elts, ty[1])) + ")"
        bad(tgt, "loop target")


def _balanced(t):
    d = 0
    for i, c in enumerate(t):
        d += (c == "(") - (c == ")")
        if d < 0 or (d == 0 and c == " " and i < len(t) - 1 and not t.startswith("(")):
            return False
        if d == 0 and i < len(t) - 1 and t.startswith("("):
            return False
    return d == 0


def _load(t):
    if isinstance(t, ast.Name):
        return ast.Name(id=t.id, ctx=ast.Load())
    return ast.Attribute(value=t.value, attr=t.attr, ctx=ast.Load())


def _merge(a, b):
    c = dict(a)
    c.update(b)
    return c


def _tuple(vs):
    if not vs:
        return "tt"
    if len(vs) == 1:
        return vs[0]
    return "(" + ", ".join(vs) + ")"


def _binder(vs):
    if not vs:
        return "_"
    if len(vs) == 1:
        return vs[0]
    return "'(" + ", ".join(vs) + ")"


def mutates_self(fd, rw_methods):
    """does the body assign an attribute of self, call a mutating method on an attribute of self,
    or call a known mutating method of self?"""
    for s in ast.walk(fd):
        if isinstance(s, (ast.Assign, ast.AugAssign)):
            tgts = s.targets if isinstance(s, ast.Assign) else [s.target]
            for t in tgts:
                for x in ast.walk(t):
                    if isinstance(x, ast.Attribute) and isinstance(x.value, ast.Name) and x.value.id == "self" \
                            and isinstance(x.ctx, ast.Store):
                        return True
        if isinstance(s, ast.Call) and isinstance(s.func, ast.Attribute):
            f = s.func
            if isinstance(f.value, ast.Attribute) and isinstance(f.value.value, ast.Name) and f.value.value.id == "self" \
                    and f.attr not in ("get",):
                return True
            if isinstance(f.value, ast.Name) and f.value.id == "self" and f.attr in rw_methods:
                return True
    return False


def mutates_self_obj(fd, cls, rw_names, classes):
    """mutates_self for the classes whose instances hold other objects: does the body store into self or
    into anything reached from self (attribute, property, item), call a mutating method of self, or call
    on an attribute of self anything that is not known to leave it alone?"""
    fields = CLASSES[cls][1]
    for s in ast.walk(fd):
        if isinstance(s, (ast.Assign, ast.AugAssign, ast.AnnAssign, ast.Delete)):
            tgts = s.targets if isinstance(s, (ast.Assign, ast.Delete)) else [s.target]
            for t in tgts:
                for x in ([t] if not isinstance(t, ast.Tuple) else list(t.elts)):
                    base = x
                    while isinstance(base, (ast.Attribute, ast.Subscript)):
                        base = base.value
                    if isinstance(base, ast.Name) and base.id == "self" and base is not x:
                        return True
        if isinstance(s, ast.Call) and isinstance(s.func, ast.Attribute):
            f = s.func
            if isinstance(f.value, ast.Name) and f.value.id == "self":
                if f.attr in rw_names:
                    return True
                continue
            base = f.value
            while isinstance(base, (ast.Attribute, ast.Subscript)):
                base = base.value
            if not (isinstance(base, ast.Name) and base.id == "self"):
                continue
            known = None
            if isinstance(f.value, ast.Attribute) and isinstance(f.value.value, ast.Name):
                a = f.value.attr
                if a in fields and isinstance(fields[a][1], tuple) and fields[a][1][0] == "obj":
                    known = classes[fields[a][1][1]].methods.get(f.attr)
                elif (cls, a) in CONST_ATTRS:
                    known = classes[CONST_ATTRS[(cls, a)]].methods.get(f.attr)
            if known is None or known.rw:
                return True
    return False


CONST_BINDINGS = {}     # class -> attributes that nothing in the package stores into, outside __init__ (set by main)


def constant_bindings(trees):
    """class -> the attributes of its instances (as listed in CLASSES) that no statement of the package
    assigns, augments or deletes outside the __init__ of that class: their binding is fixed at construction"""
    stored = set()
    for tree in trees.values():
        for n in tree.body:
            if not isinstance(n, ast.ClassDef):
                fdefs = [(None, n)]
            else:
                fdefs = [(n.name, x) for x in n.body]
            for cname, fdef in fdefs:
                for x in ast.walk(fdef):
                    if isinstance(x, ast.Attribute) and isinstance(x.ctx, (ast.Store, ast.Del)):
                        init_of_own = (isinstance(fdef, ast.FunctionDef) and fdef.name == "__init__" and cname
                                       and isinstance(x.value, ast.Name) and x.value.id == "self")
                        stored.add((None, x.attr) if not init_of_own else ("init:" + cname, x.attr))
                    if isinstance(x, ast.Call) and isinstance(x.func, ast.Name) and x.func.id in ("setattr", "delattr"):
                        stored.add((None, "*"))
    if (None, "*") in stored:
        return {}
    return {c: {a for a in CLASSES[c][1] if (None, a) not in stored} for c in CLASSES}


def inline_attribute_names(fd, cls):
    """NORMALISATION.  `x = self.a`, a top-level statement of the body, x assigned nowhere else and read only in
    the statements after it, a an attribute whose binding is fixed at construction (CONST_BINDINGS): x is
    another name for self.a -- the same object, whatever is done to it or through it -- and is replaced by
    it.  (Hoisting an attribute into a local and not doing so then give the same text.)"""
    consts = CONST_BINDINGS.get(cls, set())
    changed = True
    while changed:
        changed = False
        for i, st in enumerate(fd.body):
            if not (isinstance(st, ast.Assign) and len(st.targets) == 1 and isinstance(st.targets[0], ast.Name)
                    and isinstance(st.value, ast.Attribute) and isinstance(st.value.value, ast.Name)
                    and st.value.value.id == "self" and st.value.attr in consts):
                continue
            x = st.targets[0].id
            if x == "self" or x in [a.arg for a in fd.args.args]:
                continue
            stores = [n for n in ast.walk(fd) if isinstance(n, ast.Name) and n.id == x and not isinstance(n.ctx, ast.Load)]
            before = [n for s_ in fd.body[:i + 1] for n in ast.walk(s_) if isinstance(n, ast.Name) and n.id == x
                      and isinstance(n.ctx, ast.Load)]
            # (a nested scope that binds the same name would hide it)
            shadow = [n for n in ast.walk(fd) if (isinstance(n, ast.arg) and n.arg == x)
                      or (isinstance(n, ast.FunctionDef) and n is not fd)]
            if len(stores) != 1 or before or shadow:
                continue
            attr = st.value

            class _Sub(ast.NodeTransformer):
                def visit_Name(self_, node):
                    if node.id == x and isinstance(node.ctx, ast.Load):
                        return ast.copy_location(ast.Attribute(value=ast.Name(id="self", ctx=ast.Load()),
                                                               attr=attr.attr, ctx=ast.Load()), node)
                    return node
            rest = [_Sub().visit(s_) for s_ in fd.body[i + 1:]]
            fd.body[:] = fd.body[:i] + rest
            ast.fix_missing_locations(fd)
            changed = True
            break


class Desugar(ast.NodeTransformer):
    """NORMALISATIONS on the syntax tree, each an exact equivalence of Python (applied to every module before anything
    else reads it):
      * `x.decode()` / `x.encode()` are `x.decode("utf-8")` / `x.encode("utf-8")` (the defaults of both methods);
      * `a, b = divmod(x, K)` with x a name and K a non-zero integer literal is `a, b = x // K, x % K`;
      * an assignment expression that is the FIRST thing a test evaluates moves in front of the test:
        `if (x := e) ...:` is `x = e` then `if x ...:`; `while (x := e) ...: body` is
        `while True: x = e; if not (x ...): break; body` (a loop with an `else` clause is left alone);
        `if x := e:` likewise."""

    @staticmethod
    def _leading_walrus(test):
        """(named expression, rebuilt test) when the first thing `test` evaluates is `(x := e)`"""
        if isinstance(test, ast.NamedExpr) and isinstance(test.target, ast.Name):
            return test, ast.Name(id=test.target.id, ctx=ast.Load())
        if isinstance(test, ast.Compare) and isinstance(test.left, ast.NamedExpr) and isinstance(test.left.target, ast.Name):
            w = test.left
            return w, ast.Compare(left=ast.Name(id=w.target.id, ctx=ast.Load()), ops=test.ops, comparators=test.comparators)
        if isinstance(test, ast.UnaryOp) and isinstance(test.op, ast.Not):
            r = Desugar._leading_walrus(test.operand)
            if r:
                return r[0], ast.UnaryOp(op=ast.Not(), operand=r[1])
        if isinstance(test, ast.BoolOp) and test.values:
            r = Desugar._leading_walrus(test.values[0])
            if r:
                return r[0], ast.BoolOp(op=test.op, values=[r[1]] + test.values[1:])
        return None

    def visit_Call(self, n):
        self.generic_visit(n)
        if isinstance(n.func, ast.Attribute) and n.func.attr in ("decode", "encode") and not n.args and not n.keywords:
            n.args = [ast.Constant(value="utf-8")]
        # type(x)(...) is x.__class__(...) (for the tuples, byte strings and integers of this library: no proxies)
        f = n.func
        if isinstance(f, ast.Call) and isinstance(f.func, ast.Name) and f.func.id == "type" and len(f.args) == 1 \
                and not f.keywords and isinstance(f.args[0], ast.Name):
            n.func = ast.Attribute(value=f.args[0], attr="__class__", ctx=ast.Load())
        return n

    def visit_Assign(self, n):
        self.generic_visit(n)
        v = n.value
        if (len(n.targets) == 1 and isinstance(n.targets[0], ast.Tuple) and len(n.targets[0].elts) == 2
                and isinstance(v, ast.Call) and isinstance(v.func, ast.Name) and v.func.id == "divmod"
                and len(v.args) == 2 and not v.keywords and isinstance(v.args[0], ast.Name)
                and isinstance(v.args[1], ast.Constant) and type(v.args[1].value) is int and v.args[1].value != 0):
            x, k = v.args
            n.value = ast.Tuple(elts=[ast.BinOp(left=ast.Name(id=x.id, ctx=ast.Load()), op=ast.FloorDiv(), right=k),
                                      ast.BinOp(left=ast.Name(id=x.id, ctx=ast.Load()), op=ast.Mod(),
                                                right=ast.Constant(value=k.value))], ctx=ast.Load())
        return n

    def visit_Compare(self, n):
        """`a OP1 b OP2 c` with b a plain name (evaluated once either way) is `a OP1 b and b OP2 c`"""
        self.generic_visit(n)
        if len(n.ops) == 2 and isinstance(n.comparators[0], ast.Name) \
                and all(isinstance(o, (ast.Lt, ast.LtE, ast.Gt, ast.GtE, ast.Eq, ast.NotEq)) for o in n.ops):
            mid = n.comparators[0]
            return ast.BoolOp(op=ast.And(), values=[
                ast.Compare(left=n.left, ops=[n.ops[0]], comparators=[ast.Name(id=mid.id, ctx=ast.Load())]),
                ast.Compare(left=ast.Name(id=mid.id, ctx=ast.Load()), ops=[n.ops[1]], comparators=[n.comparators[1]])])
        return n

    def visit_If(self, n):
        self.generic_visit(n)
        r = self._leading_walrus(n.test)
        if r is None:
            return n
        w, test = r
        n.test = test
        return [ast.Assign(targets=[ast.Name(id=w.target.id, ctx=ast.Store())], value=w.value, lineno=n.lineno), n]

    def visit_For(self, n):
        """`for x in (e1, ..., ek): BODY` over a tuple or list DISPLAY of at most four elements, BODY without break /
        continue, no else clause: the display is evaluated first (into fresh names), then BODY runs once per element --
        `t1 = e1; ...; tk = ek; x = t1; BODY; ...; x = tk; BODY`"""
        self.generic_visit(n)
        import copy
        if not (isinstance(n.iter, (ast.Tuple, ast.List)) and 1 <= len(n.iter.elts) <= 4 and isinstance(n.target, ast.Name)
                and not n.orelse and not any(isinstance(e, ast.Starred) for e in n.iter.elts)):
            return n
        # a break / continue that belongs to THIS loop (not to a loop nested in the body) rules the unrolling out
        def own_jump(stmts):
            for st in stmts:
                if isinstance(st, (ast.Break, ast.Continue)):
                    return True
                if isinstance(st, (ast.For, ast.While)):
                    if own_jump(st.orelse):
                        return True
                    continue
                for f in ("body", "orelse", "finalbody"):
                    if own_jump(getattr(st, f, []) or []):
                        return True
                for h in getattr(st, "handlers", []) or []:
                    if own_jump(h.body):
                        return True
            return False
        if own_jump(n.body):
            return n
        used = self.all_names              # every identifier of the module (names, parameters, attributes)
        temps = []
        for i in range(len(n.iter.elts)):
            t = "%s_%d_" % (n.target.id, i + 1)
            while t in used:
                t += "_"
            used.add(t)
            temps.append(t)
        out = [ast.Assign(targets=[ast.Name(id=t, ctx=ast.Store())], value=e, lineno=n.lineno)
               for t, e in zip(temps, n.iter.elts)]
        for t in temps:
            out.append(ast.Assign(targets=[ast.Name(id=n.target.id, ctx=ast.Store())],
                                  value=ast.Name(id=t, ctx=ast.Load()), lineno=n.lineno))
            out += [copy.deepcopy(st) for st in n.body]
        return out

    def visit_While(self, n):
        self.generic_visit(n)
        r = self._leading_walrus(n.test)
        if r is None or n.orelse:
            return n
        w, test = r
        head = [ast.Assign(targets=[ast.Name(id=w.target.id, ctx=ast.Store())], value=w.value, lineno=n.lineno),
                ast.If(test=ast.UnaryOp(op=ast.Not(), operand=test), body=[ast.Break()], orelse=[], lineno=n.lineno)]
        return ast.While(test=ast.Constant(value=True), body=head + n.body, orelse=[], lineno=n.lineno)


def desugar(tree):
    d = Desugar()
    d.all_names = ({x.id for x in ast.walk(tree) if isinstance(x, ast.Name)} | {x.arg for x in ast.walk(tree) if isinstance(x, ast.arg)}
                   | {x.attr for x in ast.walk(tree) if isinstance(x, ast.Attribute)}
                   | {x.name for x in ast.walk(tree) if isinstance(x, (ast.FunctionDef, ast.ClassDef))})
    tree = d.visit(tree)
    ast.fix_missing_locations(tree)
    return tree


def check_buffer_ops(fd):
    """Decoder methods receive the caller's buffer and memoryview slices of it under the annotation `bytes`, and the
    translation gives them the one type of byte strings.  What a memoryview does NOT share with bytes -- methods
    (startswith, decode, hex ...), `+`, `*`, ord(), membership tests -- is therefore refused on every name that is ever bound
    to a parameter annotated bytes, to a slice / alias / memoryview of such a name (flow-insensitive: also after it was
    rebound to a copy)."""
    buf = {a.arg for a in fd.args.args[1:] if a.annotation is not None
           and ast.unparse(a.annotation).replace(" ", "") in ("bytes", "memoryview", "bytes|memoryview", "bytes|bytearray", "bytes|bytearray|memoryview")}
    changed = True
    while changed:
        changed = False
        for x in ast.walk(fd):
            if isinstance(x, ast.Assign) and len(x.targets) == 1 and isinstance(x.targets[0], ast.Name):
                v = x.value
                src = None
                if isinstance(v, ast.Name):
                    src = v.id
                elif isinstance(v, ast.Subscript) and isinstance(v.slice, ast.Slice) and isinstance(v.value, ast.Name):
                    src = v.value.id
                elif isinstance(v, ast.Call) and isinstance(v.func, ast.Name) and v.func.id == "memoryview" and v.args \
                        and isinstance(v.args[0], ast.Name):
                    src = v.args[0].id
                if src in buf and x.targets[0].id not in buf:
                    buf.add(x.targets[0].id)
                    changed = True
    for x in ast.walk(fd):
        if isinstance(x, ast.Attribute) and isinstance(x.value, ast.Name) and x.value.id in buf:
            raise Unsupported(f"line {x.lineno}: attribute .{x.attr} of {x.value.id}, which may be a memoryview of the caller's buffer")
        if isinstance(x, ast.BinOp) and isinstance(x.op, (ast.Add, ast.Mult, ast.Mod)) \
                and any(isinstance(o, ast.Name) and o.id in buf for o in (x.left, x.right)):
            raise Unsupported(f"line {x.lineno}: arithmetic on a name that may be a memoryview of the caller's buffer")
        if isinstance(x, ast.Call) and isinstance(x.func, ast.Name) and x.func.id in ("ord", "str", "repr", "hash") \
                and any(isinstance(a, ast.Name) and a.id in buf for a in x.args):
            raise Unsupported(f"line {x.lineno}: {x.func.id}() of a name that may be a memoryview of the caller's buffer")
        if isinstance(x, ast.Compare) and any(isinstance(o, (ast.In, ast.NotIn)) for o in x.ops) \
                and any(isinstance(o, ast.Name) and o.id in buf for o in [x.left] + x.comparators):
            raise Unsupported(f"line {x.lineno}: membership test on a name that may be a memoryview of the caller's buffer")


def rename_reserved(fd):
    """local names that are Coq keywords get a trailing underscore"""
    names = {x.id for x in ast.walk(fd) if isinstance(x, ast.Name)} | {a.arg for a in fd.args.args}
    for x in ast.walk(fd):
        if isinstance(x, ast.Name) and x.id in RESERVED:
            if x.id + "_" in names:
                raise Unsupported(f"cannot rename {x.id}")
            x.id += "_"
        elif isinstance(x, ast.arg) and x.arg in RESERVED:
            if x.arg + "_" in names:
                raise Unsupported(f"cannot rename {x.arg}")
            x.arg += "_"


def signature(fd, cls, lenient=False):
    """parameter names, types and constant defaults of a function or method (without self); lenient: None for
    the type of a parameter whose annotation is not in the language (to be taken from the calls)"""
    args = fd.args.args[1:] if cls else fd.args.args
    if fd.args.vararg or fd.args.kwarg or fd.args.kwonlyargs or fd.args.posonlyargs or fd.args.kw_defaults:
        raise Unsupported("parameter form")
    defaults = {}
    for a, d in zip(reversed(args), reversed(fd.args.defaults)):
        if not isinstance(d, ast.Constant):
            raise Unsupported("default value")
        defaults[a.arg] = d
    def pty(a):
        try:
            return param_type(fd, cls, a)
        except Unsupported:
            if lenient and a.annotation is not None:
                return None
            raise
    return [a.arg for a in args], [pty(a) for a in args], defaults


def param_type(fd, cls, a):
    """the type of a parameter: its annotation, or the typed view of a dynamically typed one"""
    return VIEW_PARAMS.get((cls, fd.name, a.arg)) or ann(a.annotation)


def truthy_only(fd, methods=None):
    """the parameters that the body only uses as the operand of `not`, as the test of an if / a conditional
    expression, as an argument of a logging call (dropped), or as the argument of a method of self for a
    parameter that is itself only used so"""
    parents = {}
    for p in ast.walk(fd):
        for c in ast.iter_child_nodes(p):
            parents[c] = p
    out = set()
    for a in fd.args.args:
        ok = True
        for x in ast.walk(fd):
            if isinstance(x, ast.Name) and x.id == a.arg:
                p = parents.get(x)
                if isinstance(x.ctx, ast.Load) and (
                        (isinstance(p, ast.UnaryOp) and isinstance(p.op, ast.Not))
                        or (isinstance(p, (ast.If, ast.IfExp, ast.While)) and p.test is x)
                        or (isinstance(p, ast.Call) and isinstance(p.func, ast.Attribute)
                            and isinstance(p.func.value, ast.Name) and p.func.value.id == "log")):
                    continue
                if isinstance(x.ctx, ast.Load) and methods and isinstance(p, ast.Call) \
                        and isinstance(p.func, ast.Attribute) and isinstance(p.func.value, ast.Name) \
                        and p.func.value.id == "self" and p.func.attr in methods and not p.keywords:
                    m = methods[p.func.attr]
                    i = next((j for j, a_ in enumerate(p.args) if a_ is x), None)
                    if i is not None and i < len(m.pnames) and m.pnames[i] in m.truthy:
                        continue
                ok = False
        if ok:
            out.add(a.arg)
    return out


def translate_total(fd, cls, cname, consts, methods, funs, classes):
    """a method whose body is `return e` for an expression e that cannot raise: a plain value"""
    body = [s for s in fd.body if not (isinstance(s, ast.Expr) and isinstance(s.value, ast.Constant))]
    if len(body) != 1 or not isinstance(body[0], ast.Return) or body[0].value is None:
        raise Unsupported("not a single return")
    pn, pt, _ = signature(fd, cls)
    rt = ann(fd.returns, ret=True)
    fn = Fn(fd.name, cls, False, list(zip(pn, pt)), rt, consts, methods, funs, classes, fd)
    b, t, ty = Tr(fn).E(body[0].value, dict(zip(pn, pt)), rt)
    if b or ty != rt:
        raise Unsupported("the returned expression can raise")
    ps = "".join(f" ({n} : {cty(t_)})" for n, t_ in zip(pn, pt))
    return f"Definition {cname} (self : {CLASSES[cls][0]}){ps} : {cty(rt)} :=\n{helper_prefix(fn.used_helpers)}{t}."


def translate_init(fd, cls, cname, consts, funs, classes, inits):
    """__init__ whose body only stores a value that cannot raise into each attribute of self, once:
    the record of these values (a function of the parameters; their defaults are not modelled)"""
    rec, fields = CLASSES[cls]
    args = fd.args.args[1:]
    if fd.args.vararg or fd.args.kwarg or fd.args.kwonlyargs or fd.args.posonlyargs:
        raise Unsupported("parameter form")
    for d in fd.args.defaults:
        if not (isinstance(d, ast.Constant) or (isinstance(d, ast.Name) and d.id in consts)):
            raise Unsupported("default value")
    if ann(fd.returns, ret=True) != "none":
        raise Unsupported("__init__ returns")
    rename_reserved(fd)
    params = [(a.arg, ann(a.annotation)) for a in args]
    fn = Fn(fd.name, cls, False, params, "none", consts, {}, funs, classes, fd)
    fn.init_fields, fn.inits = {}, inits
    tr = Tr(fn)
    env = dict(params)
    consta = classes[cls].const_attrs if cls in classes else {}
    lets = []
    for s in fd.body:
        if isinstance(s, ast.Expr) and isinstance(s.value, ast.Constant):
            continue
        if isinstance(s, ast.Assign) and len(s.targets) == 1:
            t, v = s.targets[0], s.value
        elif isinstance(s, ast.AnnAssign) and s.value is not None:
            t, v = s.target, s.value
        else:
            bad(s, "statement in __init__")
        if not (isinstance(t, ast.Attribute) and isinstance(t.value, ast.Name) and t.value.id == "self"):
            bad(s, "assignment target in __init__")
        if t.attr in consta:
            continue        # a constant object (checked by const_attr_text): not part of the state
        if t.attr not in fields or t.attr in fn.init_fields:
            bad(s, f"attribute {t.attr} is unknown or assigned twice")
        f, fty = fields[t.attr]
        b, txt, ty = tr.E(v, env, fty)
        if b or ty != fty:
            bad(s, "value that can raise, or of another type")
        local = f"self_{t.attr}"
        if local in env:
            bad(s, f"name clash on {local}")
        lets.append(f"let {local} := {txt} in\n")
        fn.init_fields[t.attr] = (local, fty)
    missing = [a for a in fields if a not in fn.init_fields]
    if missing:
        raise Unsupported(f"__init__ does not assign {missing}")
    record = "{| " + "; ".join(f"{fields[a][0]} := {fn.init_fields[a][0]}" for a in fields) + " |}"
    ps = "".join(f" ({n} : {cty(t)})" for n, t in params)
    return f"Definition {cname}{ps} : {rec} :=\n" + helper_prefix(fn.used_helpers) + "".join(lets) + record + "."


def translate_function(fd, cls, cname, rw, consts, methods, funs, classes=None, bytearray_funs=(), total=False,
                       struct_ok=False, helper=None, level=1):
    """helper: the definition is a Helper; its text is stored in it as a function, and nothing is returned"""
    args = fd.args.args[1:] if cls else fd.args.args
    if fd.args.vararg or fd.args.kwarg or fd.args.kwonlyargs:
        raise Unsupported("parameter form")
    rename_reserved(fd)
    if cls == "Decoder":
        check_buffer_ops(fd)
    if cls:
        inline_attribute_names(fd, cls)
    if helper is not None and helper.meth is not None:
        if None in helper.meth.ptys:
            raise Unsupported("a parameter whose type neither its annotation nor a call tells")
        params = [(a.arg, t) for a, t in zip(args, helper.meth.ptys)]
    else:
        params = [(a.arg, param_type(fd, cls, a)) for a in args]
    rt = VIEW_RETURNS.get((cls, fd.name)) or ann(fd.returns, ret=True)
    fn = Fn(fd.name, cls, rw, params, rt, consts, methods, funs, classes, fd, bytearray_funs)
    fn.struct_ok = struct_ok
    fn.level = level
    tr = Tr(fn)

    def finish(body, rtext):
        selfp = f" (self : {CLASSES[cls][0]})" if cls else ""
        ps = selfp + "".join(f" ({n} : {cty(t)})" for n, t in params)
        if helper is not None:
            helper.lam = (f"fun{ps} =>\n{body}" if ps else f"({body} : {rtext})")
            helper.deps = list(fn.used_helpers)
            return None
        return f"Definition {cname}{ps} : {rtext} :=\n{helper_prefix(fn.used_helpers)}{body}."
    if total:
        if rw or (cls and helper is None):
            raise Unsupported("a method as a plain value")
        tr.total = True
        tr.ret_vars = set()
        env = dict(params)
        if any(isinstance(x, (ast.Yield, ast.YieldFrom)) for x in ast.walk(fd)):
            body = tr.generator(fd, env)
        else:
            if tr.falls_through(fd.body):
                raise Unsupported("the body can end without a return")
            body = tr.B(fd.body, env, lambda e: bad(fd, "end of the body"))
        return finish(body, cty(rt))
    if any(isinstance(x, (ast.Yield, ast.YieldFrom)) for x in ast.walk(fd)):
        raise Unsupported("generator")
    tr.ret_vars = {s.value.id for s in ast.walk(fd) if isinstance(s, ast.Return) and isinstance(s.value, ast.Name)}
    env = dict(params)
    body = tr.B(fd.body, env, lambda e: tr.ret("tt"))
    if cls and rw:
        return finish(body, f"outcome {cty(rt)} * {CLASSES[cls][0]}")
    return finish(body, f"outcome {cty(rt)}")


HEADER = ("(* GENERATED by tools/py2coq from /repo/src/hpack -- do not edit *)\n"
          "From Coq Require Import ZArith List Bool.\nFrom Coq Require Import Init.Byte.\n"
          "From HV Require Import Prelude.Py Prelude.State.\n{extra}Import ListNotations.\nOpen Scope Z_scope.\n\n")


def module_consts(tree, cenv, status, prefix=""):
    """evaluate the NAME = <constant expression> statements of a module or class body, in order"""
    out = []
    for n in tree.body:
        if isinstance(n, ast.Assign) and len(n.targets) == 1 and isinstance(n.targets[0], ast.Name):
            name = n.targets[0].id
            try:
                v = cenv.ev(n.value)
                cenv.vals[name] = v
                out.append((name, v))
                status[prefix + name] = "translated"
            except Unsupported as e:
                status[prefix + name] = f"unsupported: {e}"
    return out


def check_struct(tree):
    """hpack.struct: HeaderTuple has the class attribute indexable = True, NeverIndexedHeaderTuple is a
    subclass of it with indexable = False, and nothing else assigns `indexable`"""
    found = {}
    for n in tree.body:
        if isinstance(n, ast.ClassDef):
            # the constructors must build the plain tuple of their arguments (the typed view's FHeader / FNever
            # carry exactly the arguments): `def __new__(cls, *args): return tuple.__new__(cls, args)`, nothing else
            for x in n.body:
                if isinstance(x, ast.Expr) and isinstance(x.value, ast.Constant):
                    continue
                if isinstance(x, ast.AnnAssign) and isinstance(x.target, ast.Name) and x.target.id == "indexable" \
                        and x.value is not None and x.simple == 1 and ast.unparse(x.annotation) == "bool":
                    continue          # indexable: bool = True
                if isinstance(x, ast.Assign) and len(x.targets) == 1 and isinstance(x.targets[0], ast.Name) \
                        and x.targets[0].id in ("__slots__", "indexable"):
                    if x.targets[0].id == "__slots__" and ast.unparse(x.value) != "()":
                        return False
                    continue
                if isinstance(x, ast.FunctionDef) and x.name == "__new__" and not x.decorator_list:
                    a = x.args
                    body = [s for s in x.body if not (isinstance(s, ast.Expr) and isinstance(s.value, ast.Constant))]
                    if ([p.arg for p in a.args] == ["cls"] and a.vararg is not None and a.vararg.arg == "args"
                            and not a.kwonlyargs and a.kwarg is None and not a.posonlyargs and len(body) == 1
                            and isinstance(body[0], ast.Return) and body[0].value is not None
                            and ast.unparse(body[0].value) == "tuple.__new__(cls, args)"):
                        continue
                return False
            for x in n.body:
                tg_ = x.targets[0] if isinstance(x, ast.Assign) and len(x.targets) == 1 else (x.target if isinstance(x, ast.AnnAssign) else None)
                if isinstance(tg_, ast.Name) and tg_.id == "indexable" and isinstance(getattr(x, "value", None), ast.Constant) \
                        and isinstance(x.value.value, bool):
                    found[n.name] = (x.value.value, [b.id for b in n.bases if isinstance(b, ast.Name)])
    stores = [x for x in ast.walk(tree) if (isinstance(x, ast.Name) and x.id == "indexable" and isinstance(x.ctx, ast.Store))
              or (isinstance(x, ast.Attribute) and x.attr == "indexable" and isinstance(x.ctx, ast.Store))]
    return (len(stores) == 2 and found.get("HeaderTuple", (None,))[0] is True
            and found.get("NeverIndexedHeaderTuple", (None, []))[0] is False
            and "HeaderTuple" in found["NeverIndexedHeaderTuple"][1])


def find_accessor(tree, cls, prop, setter):
    """the getter (@property) or the setter (@prop.setter) of a property of a class"""
    body = next((n for n in tree.body if isinstance(n, ast.ClassDef) and n.name == cls), None)
    if body is None:
        raise Unsupported(f"class {cls} not found")
    found = []
    for n in body.body:
        if isinstance(n, ast.FunctionDef) and n.name == prop and len(n.decorator_list) == 1:
            d = n.decorator_list[0]
            if setter and isinstance(d, ast.Attribute) and d.attr == "setter" and isinstance(d.value, ast.Name) \
                    and d.value.id == prop:
                found.append(n)
            if not setter and isinstance(d, ast.Name) and d.id == "property":
                found.append(n)
    if len(found) != 1:
        raise Unsupported(f"accessor of {cls}.{prop} not found")
    return found[0]


def const_attr_text(tree, objtree, cls, attr, objcls, consts):
    """self.<attr> is assigned exactly once in the class, in __init__, as ObjCls(C1, ..., Cn) with module
    constants Ci, and ObjCls.__init__ only stores its parameters into its fields: the record of the Ci"""
    cdef = next((n for n in tree.body if isinstance(n, ast.ClassDef) and n.name == cls), None)
    odef = next((n for n in objtree.body if isinstance(n, ast.ClassDef) and n.name == objcls), None)
    if cdef is None or odef is None:
        raise Unsupported("class not found")
    stores = []
    for fdef in cdef.body:
        for x in ast.walk(fdef):
            if isinstance(x, ast.Attribute) and x.attr == attr and isinstance(x.ctx, (ast.Store, ast.Del)):
                stores.append((fdef, x))
            # anything else that could rebind it
            if isinstance(x, ast.Call) and isinstance(x.func, ast.Name) and x.func.id in ("setattr", "delattr"):
                raise Unsupported("setattr in the class")
    init = next((n for n in cdef.body if isinstance(n, ast.FunctionDef) and n.name == "__init__"), None)
    if init is None or len(stores) != 1 or stores[0][0] is not init:
        raise Unsupported(f"{cls}.{attr} is not assigned exactly once, in __init__")
    asg = next((x for x in init.body if isinstance(x, ast.Assign) and len(x.targets) == 1
                and x.targets[0] is stores[0][1]), None)
    if asg is None or not (isinstance(asg.targets[0].value, ast.Name) and asg.targets[0].value.id == "self"):
        raise Unsupported(f"form of the assignment of {cls}.{attr}")
    v = asg.value
    if not (isinstance(v, ast.Call) and isinstance(v.func, ast.Name) and v.func.id == objcls and not v.keywords
            and all(isinstance(a, ast.Name) and a.id in consts for a in v.args)):
        raise Unsupported(f"{cls}.{attr} is not {objcls}(constants)")
    oinit = next((n for n in odef.body if isinstance(n, ast.FunctionDef) and n.name == "__init__"), None)
    if oinit is None:
        raise Unsupported(f"{objcls}.__init__ not found")
    pn, pt, _ = signature(oinit, objcls)
    body = [x for x in oinit.body if not (isinstance(x, ast.Expr) and isinstance(x.value, ast.Constant))]
    fields = CLASSES[objcls][1]
    if len(pn) != len(v.args) or len(body) != len(pn) or set(pn) != set(fields):
        raise Unsupported(f"form of {objcls}.__init__")
    for x in body:
        if not (isinstance(x, ast.Assign) and len(x.targets) == 1 and isinstance(x.targets[0], ast.Attribute)
                and isinstance(x.targets[0].value, ast.Name) and x.targets[0].value.id == "self"
                and isinstance(x.value, ast.Name) and x.value.id == x.targets[0].attr and x.value.id in pn):
            raise Unsupported(f"form of {objcls}.__init__")
    parts = []
    for nm, ty, a in zip(pn, pt, v.args):
        if consts[a.id] != ty or fields[nm][1] != ty:
            raise Unsupported(f"type of {a.id}")
        parts.append(f"{fields[nm][0]} := {a.id}")
    return "{| " + "; ".join(parts) + " |}"


def main():
    src, out = sys.argv[1], sys.argv[2]
    sys.path.insert(0, os.path.dirname(os.path.abspath(__file__)))
    os.makedirs(out, exist_ok=True)
    status = {}
    trees = {m: desugar(ast.parse(open(os.path.join(src, m + ".py")).read()))
             for m in ("hpack", "table", "huffman", "huffman_constants", "huffman_table")}

    # ---------------- GExn.v: the class headers of exceptions.py as data
    EXC_BASES.clear()
    HANDLER_LEAVES.clear()
    REBOUND_LOG.clear()
    try:
        EXC_BASES.update(exception_bases(ast.parse(open(os.path.join(src, "exceptions.py")).read())))
        status["exceptions.<class hierarchy>"] = "translated"
    except (Unsupported, OSError, SyntaxError) as e:
        status["exceptions.<class hierarchy>"] = f"unsupported: {e}"
    # (calls of builtins and of the library's classes are read by name: no module may bind such a name itself, except
    # the class definitions and the imports of those very classes)
    SHADOWED_GLOBALS.clear()
    own = {"HeaderTuple": "struct", "NeverIndexedHeaderTuple": "struct", "HeaderTable": "table", "HuffmanEncoder": "huffman"}
    for m_, t_ in trees.items():
        for n_ in t_.body:
            names_ = []
            if isinstance(n_, (ast.FunctionDef, ast.ClassDef)):
                names_ = [n_.name]
            elif isinstance(n_, (ast.Assign, ast.AnnAssign, ast.AugAssign)):
                names_ = [x.id for tg in (n_.targets if isinstance(n_, ast.Assign) else [n_.target]) for x in ast.walk(tg)
                          if isinstance(x, ast.Name) and not isinstance(x.ctx, ast.Load)]
            elif isinstance(n_, (ast.Import, ast.ImportFrom)):
                for a_ in n_.names:
                    b_ = (a_.asname or a_.name).split(".")[0]
                    if b_ in own and isinstance(n_, ast.ImportFrom) and n_.level == 1 and n_.module == own[b_] and a_.asname in (None, a_.name):
                        continue
                    if b_ == "deque" and isinstance(n_, ast.ImportFrom) and n_.level == 0 and n_.module == "collections" \
                            and a_.name == "deque" and a_.asname in (None, "deque"):
                        continue
                    names_.append(b_)
            for b_ in names_:
                if b_ in BUILTIN_NAMES and not (isinstance(n_, ast.ClassDef) and own.get(b_) == m_):
                    SHADOWED_GLOBALS[b_] = n_.lineno
                    status[f"{m_}.<name {b_}>"] = f"unsupported: {b_} is bound at module level (line {n_.lineno})"
    # (`log.<x>(...)` statements are dropped by name: `log` must be nothing but the module's logger)
    for m_, t_ in trees.items():
        for x in ast.walk(t_):
            if (isinstance(x, ast.Name) and x.id == "log" and not isinstance(x.ctx, ast.Load)) \
                    or (isinstance(x, ast.arg) and x.arg == "log") \
                    or (isinstance(x, ast.alias) and (x.asname or x.name) == "log") \
                    or (isinstance(x, ast.ExceptHandler) and x.name == "log") \
                    or (isinstance(x, (ast.FunctionDef, ast.ClassDef)) and x.name == "log"):
                line = getattr(x, "lineno", 0)
                top = [n for n in t_.body if isinstance(n, ast.Assign) and len(n.targets) == 1 and n.targets[0] is x]
                if top and ast.unparse(top[0].value) == "logging.getLogger(__name__)":
                    continue
                print(f"py2coq: {m_}.py line {line}: `log` is bound to something other than the module's logger", file=sys.stderr)
                status[f"{m_}.<log>"] = f"unsupported: `log` rebound at line {line}"
                REBOUND_LOG.add(m_)
    # (an exception class name rebound anywhere in the translated modules would change what `raise C` means)
    for m_, t_ in trees.items():
        for x in ast.walk(t_):
            nm = None
            if isinstance(x, ast.Name) and not isinstance(x.ctx, ast.Load):
                nm = x.id
            elif isinstance(x, ast.arg):
                nm = x.arg
            elif isinstance(x, ast.alias) and x.asname is not None:
                nm = x.asname if (x.asname in EXN or x.name in EXN) and x.asname != x.name else None
            elif isinstance(x, ast.ExceptHandler) and x.name:
                nm = x.name
            elif isinstance(x, (ast.FunctionDef, ast.ClassDef)):
                nm = x.name
            if nm in EXN or nm in EXC_BASES:
                EXC_BASES.clear()
                status["exceptions.<class hierarchy>"] = f"unsupported: {m_}.py rebinds the exception class name {nm}"

    def exn_file():
        rows = ";\n   ".join('("%s", [%s])' % (c, "; ".join('"%s"' % b for b in bs)) for c, bs in EXC_BASES.items())
        leaves = "; ".join(sorted(HANDLER_LEAVES))
        body = ("(* GENERATED by tools/py2coq from /repo/src/hpack/exceptions.py -- do not edit *)\n"
                "From Coq Require Import List String.\nFrom HV Require Import Prelude.Py.\nImport ListNotations.\n"
                "Open Scope string_scope.\n\n")
        if EXC_BASES:
            body += ("(* class -> bases, in the order of the source *)\n"
                     f"Definition EXC_BASES : list (string * list string) :=\n  [{rows}].\n")
        else:
            body += f"(* unsupported: {status['exceptions.<class hierarchy>']} *)\n"
        return body
    write_if_changed(os.path.join(out, "GExn.v"), exn_file())

    # ---------------- Data.v
    cenv = ConstEnv()
    data = []
    data += module_consts(trees["huffman_constants"], cenv, status, "huffman_constants.")
    data += module_consts(trees["huffman_table"], cenv, status, "huffman_table.")
    hp_consts = module_consts(trees["hpack"], cenv, status, "hpack.")
    data += [(k, v) for k, v in hp_consts if k not in ("log",)]
    for n in trees["table"].body:
        if isinstance(n, ast.ClassDef) and n.name == "HeaderTable":
            data += module_consts(n, cenv, status, "table.HeaderTable.")
    # STATIC_TABLE_MAPPING is built at import time by _build_static_table_mapping(): it is
    # obtained by importing hpack.table from this very tree (data by execution; the adequacy
    # certificate of Bridge/TableData.v is what gives it meaning).
    try:
        data.append(("STATIC_TABLE_MAPPING", runtime_mapping(src)))
        status["table.HeaderTable.STATIC_TABLE_MAPPING"] = "translated"
    except Exception as e:  # noqa: BLE001
        status["table.HeaderTable.STATIC_TABLE_MAPPING"] = f"unsupported: {e}"
    consts = {}
    lines = []
    for name, v in data:
        if isinstance(v, bytes):
            # INDEX_* markers are one-byte strings
            pass
        ty = val_type(v)
        consts[name] = ty
        lines.append(f"Definition {name} : {cty(ty)} :=\n  {coq_val(v)}.\n")
    write_if_changed(os.path.join(out, "GData.v"), HEADER.format(extra="") + "\n".join(lines))

    # ---------------- functions
    funs = {"table_entry_size": ("table_entry_size", ["bytes", "bytes"], ("total", "int"))}
    imp = "From HV Require Import Gen.GData.\nFrom HV Require Model.Exn Gen.GExn.\n"

    def emit(fname, items, extra, pre=""):
        defs = [pre.rstrip("\n")] if pre else []
        for key, thunk, *done in items:
            try:
                defs.append(thunk())
                status[key] = "translated"
                for d in done:
                    # what makes the definition callable from the later ones
                    if isinstance(d, Meth):
                        d.ok = True
                    elif d is not None:
                        d()
            except Unsupported as e:
                status[key] = f"unsupported: {e}"
                defs.append(f"(* {key}: unsupported: {e} *)")
            except Exception as e:  # noqa: BLE001 -- a crash on one definition is that definition's failure (fail closed)
                msg = ("internal error %r" % (e,)).replace("*)", "* )")
                status[key] = f"unsupported: {msg}"
                defs.append(f"(* {key}: unsupported: {msg} *)")
        text = "\n\n".join(defs) + "\n"
        if ("py_format_x" in text or "str_zfill" in text) and "Prelude.PyExtra" not in extra:
            # format(n, "x") / s.zfill(w) are rendered by Prelude/PyExtra.v (imported only where they occur, so that
            # the text generated for a source without them is unchanged)
            extra = "From HV Require Import Prelude.PyExtra.\n" + extra
        write_if_changed(os.path.join(out, fname), HEADER.format(extra=extra) + text)

    def find(tree, name, cls=None):
        body = tree.body
        if cls:
            body = next(n for n in tree.body if isinstance(n, ast.ClassDef) and n.name == cls).body
        for n in body:
            if isinstance(n, ast.FunctionDef) and n.name == name:
                if name == "maxsize" and not any(isinstance(d, ast.Attribute) and d.attr == "setter"
                                                 for d in n.decorator_list):
                    continue
                return n
        raise Unsupported(f"definition {name} not found")

    # ---- auxiliary definitions: helper functions of the modules and helper methods of the translated classes that
    # the fixed list below does not name.  One table of functions per Python module (what a call f(...) in that
    # module means), one table of methods per class; a helper is an entry that is translated at its first use.
    KNOWN_FUNS = {"hpack": {"_unicode_if_needed", "encode_integer", "decode_integer", "_dict_to_iterable", "_to_bytes"},
                  "table": {"table_entry_size", "_build_static_table_mapping"}, "huffman": set(),
                  "huffman_table": {"decode_huffman"}}
    KNOWN_METHODS = {"HeaderTable": ("table", {"get_by_index", "add", "search", "maxsize", "_shrink"}),
                     "HuffmanEncoder": ("huffman", {"encode"}),
                     "Decoder": ("hpack", {"header_table_size", "decode", "_assert_valid_table_size",
                                           "_update_encoding_context", "_decode_indexed", "_decode_literal_no_index",
                                           "_decode_literal_index", "_decode_literal"}),
                     "Encoder": ("hpack", {"header_table_size", "encode", "add", "_encode_indexed", "_encode_literal",
                                           "_encode_indexed_literal", "_encode_table_size_change"})}
    CONST_BINDINGS.clear()
    CONST_BINDINGS.update(constant_bindings(trees))
    # (aliases of the objects held by self are replaced before anything classifies the methods: whether a method
    # mutates self must not depend on whether it names the table `self.header_table` or through a local)
    for t_ in trees.values():
        for c_ in t_.body:
            if isinstance(c_, ast.ClassDef) and c_.name in CLASSES:
                for m_ in c_.body:
                    if isinstance(m_, ast.FunctionDef):
                        inline_attribute_names(m_, c_.name)
    classes = {c: ClsInfo() for c in CLASSES}
    mfuns = {"hpack": {}, "table": funs, "huffman": {}, "huffman_table": {}}
    tmeth = {}
    hmeth = classes["HuffmanEncoder"].methods
    phase = [0]          # 0 while GInt.v is being written: a helper translated now only sees what GInt.v sees
    helpers = []

    def plain(fd):
        return not fd.decorator_list and not (fd.name.startswith("__") and fd.name.endswith("__"))
    hfuns = {m: [n for n in trees[m].body if isinstance(n, ast.FunctionDef) and n.name not in KNOWN_FUNS[m] and plain(n)]
             for m in KNOWN_FUNS}
    clash = {n.name for m in hfuns for n in hfuns[m]
             if sum(1 for m2 in hfuns for n2 in hfuns[m2] if n2.name == n.name) > 1}

    def helper_fun(mod, fd):
        h = Helper(f"{mod}.{fd.name}", None, fd, f"{mod}_{fd.name}" if fd.name in clash else fd.name)

        def tr_(h):
            pn, pt, df = signature(fd, None)
            rt = ann(fd.returns, ret=True)
            h.level = phase[0] if mod == "hpack" else 1
            try:
                translate_function(fd, None, h.local, False, consts, {}, mfuns[mod], classes, total=True, helper=h,
                                   level=h.level)
                h.total = True
            except Unsupported:
                translate_function(fd, None, h.local, False, consts, {}, mfuns[mod], classes, helper=h, level=h.level)
            h.entry = (h.local, pt, ("total" if h.total else "raises", rt), h)
            status[h.key] = "translated"
        h.translate = tr_
        helpers.append(h)
        return h
    for mod in hfuns:
        for fd in hfuns[mod]:
            mfuns[mod][fd.name] = helper_fun(mod, fd)
    # a helper function imported from a sibling module is the same function
    for mod in hfuns:
        for n in trees[mod].body:
            if isinstance(n, ast.ImportFrom) and n.level == 1 and n.module in mfuns and n.module != mod:
                for a in n.names:
                    if isinstance(mfuns[n.module].get(a.name), Helper):
                        mfuns[mod][a.asname or a.name] = mfuns[n.module][a.name]

    def helper_methods(cls, methods, extra_tables=()):
        """the helper methods of a class, entered in its table of methods (and in extra_tables)"""
        mod, known = KNOWN_METHODS[cls]
        cdef = next((n for n in trees[mod].body if isinstance(n, ast.ClassDef) and n.name == cls), None)
        out = {}
        for fd in (cdef.body if cdef else []):
            if not (isinstance(fd, ast.FunctionDef) and fd.name not in known and plain(fd)):
                continue
            h = Helper(f"{mod}.{cls}.{fd.name}", cls, fd, f"{cls}_{fd.name}")
            try:
                pn, pt, df = signature(fd, cls, lenient=True)
                m = Meth(h.local, False, pt, ann(fd.returns, ret=True), pn, defaults=df)
                m.truthy = truthy_only(fd, methods)
            except Unsupported as e:
                status[h.key] = f"unsupported: {e}"
                continue
            m.helper, h.meth = h, m

            def tr_(h, fd=fd, m=m):
                if m.rw and cls == "HuffmanEncoder":
                    raise Unsupported("a method that changes a HuffmanEncoder")
                try:
                    if m.rw:
                        raise Unsupported("changes self")
                    translate_function(fd, cls, h.local, False, consts, methods, mfuns[mod], classes,
                                       bytearray_funs_, total=True, struct_ok=struct_ok_[0], helper=h)
                    h.total = m.total = True
                except Unsupported:
                    translate_function(fd, cls, h.local, m.rw, consts, methods, mfuns[mod], classes, bytearray_funs_,
                                       struct_ok=struct_ok_[0], helper=h)
                status[h.key] = "translated"
            h.translate = tr_
            helpers.append(h)
            methods[fd.name] = m
            for t_ in extra_tables:
                t_[fd.name] = m
            out[fd.name] = (fd, m)
        return out
    bytearray_funs_ = set()
    struct_ok_ = [False]

    def fun(tree, name, cls=None, cname=None, rw=False, methods=None, mod="table", level=1):
        return lambda: translate_function(find(tree, name, cls), cls, cname or name, rw, consts,
                                          methods if methods is not None else {}, mfuns[mod], classes, level=level)

    def tes():
        fd = find(trees["table"], "table_entry_size")
        # total: its body is one return of an arithmetic expression over len()
        fn = Fn(fd.name, None, False, [], "int", consts, {}, {})
        tr = Tr(fn)
        env = {a.arg: ann(a.annotation) for a in fd.args.args}
        body = [s for s in fd.body if not (isinstance(s, ast.Expr) and isinstance(s.value, ast.Constant))]
        if len(body) != 1 or not isinstance(body[0], ast.Return):
            raise Unsupported("table_entry_size is not a single return")
        b, t, ty = tr.E(body[0].value, env)
        if b or ty != "int":
            raise Unsupported("table_entry_size body")
        ps = " ".join(f"({a.arg} : {cty(env[a.arg])})" for a in fd.args.args)
        return f"Definition table_entry_size {ps} : Z :=\n{t}."

    emit("GInt.v", [("hpack.encode_integer", fun(trees["hpack"], "encode_integer", mod="hpack", level=0)),
                   ("hpack.decode_integer", fun(trees["hpack"], "decode_integer", mod="hpack", level=0))], imp)
    phase[0] = 1
    for h in helpers:
        if h.state == "done" and h.error is not None and h.key.startswith("hpack."):
            h.state, h.error = "new", None      # it may need what the later files see

    # which HeaderTable methods mutate self (fixpoint over calls)
    tdefs = {}
    for nm in ("_shrink", "add", "get_by_index", "search", "maxsize"):
        try:
            tdefs[nm] = find(trees["table"], nm, "HeaderTable")
        except Unsupported:
            pass
    thelp = helper_methods("HeaderTable", tmeth, [classes["HeaderTable"].methods])
    for nm, (fd, m) in thelp.items():
        tdefs[nm] = fd
    rw = set()
    changed = True
    while changed:
        changed = False
        for nm, fd in tdefs.items():
            if nm not in rw and mutates_self(fd, rw):
                rw.add(nm)
                changed = True
    coqname = {"_shrink": "HeaderTable__shrink", "add": "HeaderTable_add", "get_by_index": "HeaderTable_get_by_index",
               "search": "HeaderTable_search", "maxsize": "HeaderTable_set_maxsize"}
    for nm, fd in tdefs.items():
        if nm in thelp:
            thelp[nm][1].rw = nm in rw
            continue
        try:
            ptys = [ann(a.annotation) for a in fd.args.args[1:]]
            tmeth[nm] = Meth(coqname[nm], nm in rw, ptys, ann(fd.returns, ret=True), [a.arg for a in fd.args.args[1:]])
        except Unsupported:
            pass
    items = [("table.table_entry_size", tes)]
    for nm in ("_shrink", "add", "get_by_index", "search", "maxsize"):
        if nm in tmeth:
            tmeth[nm].ok = False      # until it is translated: its callers are refused rather than left dangling
        items.append((f"table.HeaderTable.{nm}",
                      fun(trees["table"], nm, "HeaderTable", coqname[nm], nm in rw, tmeth), tmeth.get(nm)))
    emit("GTable.v", items, imp)

    for nm, (fd, m) in helper_methods("HuffmanEncoder", hmeth).items():
        m.rw = mutates_self(fd, set())
    emit("GHuff.v", [("huffman.HuffmanEncoder.encode",
                     fun(trees["huffman"], "encode", "HuffmanEncoder", "HuffmanEncoder_encode", False, hmeth, "huffman")),
                    ("huffman_table.decode_huffman",
                     fun(trees["huffman_table"], "decode_huffman", mod="huffman_table"))], imp)

    try:
        struct_ok = check_struct(ast.parse(open(os.path.join(src, "struct.py")).read()))
    except (OSError, SyntaxError):
        struct_ok = False
    struct_ok_[0] = struct_ok

    # ---------------- hpack.Decoder, hpack.Encoder (objects that hold a HeaderTable)
    hp = trees["hpack"]

    def translated(key):
        return status.get(key) == "translated"

    def sig_of(fd, cls, cname, **kw):
        pn, pt, df = signature(fd, cls)
        m = Meth(cname, False, pt, ann(fd.returns, ret=True), pn, defaults=df, **kw)
        m.truthy = truthy_only(fd, classes[cls].methods if cls in classes else None)
        return m

    for nm, m in tmeth.items():
        m.ok = translated(f"table.HeaderTable.{nm}")
        if nm == "maxsize":
            classes["HeaderTable"].setters["maxsize"] = m
        else:
            classes["HeaderTable"].methods[nm] = m
    try:
        # the getter of HeaderTable.maxsize is `return self._maxsize`: reading the field
        g = find_accessor(trees["table"], "HeaderTable", "maxsize", False)
        body = [x for x in g.body if not (isinstance(x, ast.Expr) and isinstance(x.value, ast.Constant))]
        v = body[0].value if len(body) == 1 and isinstance(body[0], ast.Return) else None
        if isinstance(v, ast.Attribute) and isinstance(v.value, ast.Name) and v.value.id == "self" \
                and v.attr in CLASSES["HeaderTable"][1]:
            f, t = CLASSES["HeaderTable"][1][v.attr]
            classes["HeaderTable"].getters["maxsize"] = ("field", f, t)
    except Unsupported:
        pass
    try:
        m = sig_of(find(trees["huffman"], "encode", "HuffmanEncoder"), "HuffmanEncoder", "HuffmanEncoder_encode")
        m.ok = translated("huffman.HuffmanEncoder.encode")
        classes["HuffmanEncoder"].methods["encode"] = m
    except Unsupported:
        pass
    for (c, a), oc in CONST_ATTRS.items():
        try:
            classes[c].const_attrs[a] = (oc, const_attr_text(hp, trees["huffman"], c, a, oc, consts))
        except Unsupported as e:
            status[f"hpack.{c}.{a}"] = f"unsupported: {e}"

    funs2 = mfuns["hpack"]        # what a call f(...) in hpack.py means, from here on
    for n in hp.body:
        if isinstance(n, ast.ImportFrom) and n.level == 1 and n.module == "table" \
                and any(a.name == "table_entry_size" and a.asname is None for a in n.names):
            funs2["table_entry_size"] = funs["table_entry_size"]
    bytearray_funs = bytearray_funs_
    for key, tree, name in (("hpack.encode_integer", hp, "encode_integer"), ("hpack.decode_integer", hp, "decode_integer"),
                            ("huffman_table.decode_huffman", trees["huffman_table"], "decode_huffman")):
        if translated(key):
            fd = find(tree, name)
            funs2[name] = (name, [ann(a.annotation) for a in fd.args.args], ("raises", ann(fd.returns, ret=True)))
            if isinstance(fd.returns, ast.Name) and fd.returns.id == "bytearray":
                bytearray_funs.add(name)

    seen_classes = set()

    def object_class(cls, plan, fname, first, extra, pre=""):
        """plan: (python name, kind, coq name) with kind method | getter | setter, in an order in which
        callees precede callers"""
        defs, names = {}, {}
        if cls not in seen_classes:
            seen_classes.add(cls)
            for nm, (fd, m) in helper_methods(cls, classes[cls].methods).items():
                defs[(nm, "method")] = fd
                names[(nm, "method")] = m
        for nm, kind, cname in plan:
            try:
                fd = find(hp, nm, cls) if kind == "method" else find_accessor(hp, cls, nm, kind == "setter")
                defs[(nm, kind)] = fd
                m = sig_of(fd, cls, cname, ok=False)
                {"method": classes[cls].methods, "getter": classes[cls].getters,
                 "setter": classes[cls].setters}[kind][nm] = m
                names[(nm, kind)] = m
            except Unsupported:
                pass
        # which of them change self (fixpoint over the calls between them)
        changed = True
        while changed:
            changed = False
            rwn = {nm for nm, m in classes[cls].methods.items() if m.rw}
            for (nm, kind), m in names.items():
                if not m.rw and (kind == "setter" or mutates_self_obj(defs[(nm, kind)], cls, rwn, classes)):
                    if kind == "getter":
                        continue    # reported when it is translated
                    m.rw = changed = True
        items = list(first)
        for nm, kind, cname in plan:
            key = f"hpack.{cls}.{nm}" + (".setter" if kind == "setter" else "")

            def thunk(nm=nm, kind=kind, cname=cname):
                if (nm, kind) not in defs:
                    raise Unsupported(f"definition {nm} not found or its signature is not supported")
                fd, m = defs[(nm, kind)], names[(nm, kind)]
                if kind == "getter":
                    if mutates_self_obj(fd, cls, {n for n, x in classes[cls].methods.items() if x.rw}, classes):
                        raise Unsupported("a property getter that changes self")
                    try:
                        text = translate_total(fd, cls, cname, consts, classes[cls].methods, funs2, classes)
                        m.total = True
                        return text
                    except Unsupported:
                        pass
                return translate_function(fd, cls, cname, m.rw, consts, classes[cls].methods, funs2, classes,
                                          bytearray_funs, struct_ok=struct_ok)
            items.append((key, thunk, names.get((nm, kind))))
        emit(fname, items, extra, pre)

    def unicode_if_needed():
        return translate_function(find(hp, "_unicode_if_needed"), None, "_unicode_if_needed", False, consts, {}, funs2)

    def reg_unicode():
        fd = find(hp, "_unicode_if_needed")
        funs2["_unicode_if_needed"] = ("_unicode_if_needed", [ann(a.annotation) for a in fd.args.args],
                                       ("raises", ann(fd.returns, ret=True)))

    imp2 = ("From HV Require Import Prelude.Utf8 Prelude.PyExtra.\n"
            "From HV Require Model.Decoder. (* only for the types of header values: Decoder.header, Decoder.hclass *)\n"
            "From HV Require Import Gen.GData Gen.GInt Gen.GTable Gen.GHuff.\n")
    object_class("Decoder",
                 [("header_table_size", "getter", "Decoder_header_table_size"),
                  ("header_table_size", "setter", "Decoder_set_header_table_size"),
                  ("_assert_valid_table_size", "method", "Decoder__assert_valid_table_size"),
                  ("_update_encoding_context", "method", "Decoder__update_encoding_context"),
                  ("_decode_indexed", "method", "Decoder__decode_indexed"),
                  ("_decode_literal", "method", "Decoder__decode_literal"),
                  ("_decode_literal_no_index", "method", "Decoder__decode_literal_no_index"),
                  ("_decode_literal_index", "method", "Decoder__decode_literal_index"),
                  ("decode", "method", "Decoder_decode")],
                 "GDecoder.v", [("hpack._unicode_if_needed", unicode_if_needed, reg_unicode)], imp2)
    object_class("Encoder",
                 [("header_table_size", "getter", "Encoder_header_table_size"),
                  ("header_table_size", "setter", "Encoder_set_header_table_size"),
                  ("_encode_indexed", "method", "Encoder__encode_indexed"),
                  ("_encode_literal", "method", "Encoder__encode_literal"),
                  ("_encode_indexed_literal", "method", "Encoder__encode_indexed_literal"),
                  ("_encode_table_size_change", "method", "Encoder__encode_table_size_change"),
                  ("add", "method", "Encoder_add")],
                 "GEncoder.v", [], imp2)

    # ---------------- the API: Encoder.encode and its helpers, under the typed view (VIEW_*)
    def total_fun(name):
        def thunk():
            if name not in TOTAL_FUNS:
                raise Unsupported("not translated as a plain value")
            return translate_function(find(hp, name), None, name, False, consts, {}, funs2, total=True,
                                      struct_ok=struct_ok)

        def done():
            fd = find(hp, name)
            funs2[name] = (name, [param_type(fd, None, a) for a in fd.args.args],
                           ("total", VIEW_RETURNS.get((None, name)) or ann(fd.returns, ret=True)))
        return thunk, done
    imp3 = ("From HV Require Import Prelude.Utf8 Prelude.PyExtra.\n"
            "From HV Require Model.Api. (* only for the types of the typed view: Api.pystr, Api.hform, Api.container *)\n"
            "From HV Require Import Gen.GData Gen.GInt Gen.GTable Gen.GHuff Gen.GEncoder.\n")
    object_class("Encoder", [("encode", "method", "Encoder_encode")], "GApi.v",
                 [("hpack._to_bytes",) + total_fun("_to_bytes"),
                  ("hpack._dict_to_iterable",) + total_fun("_dict_to_iterable")], imp3, VIEW_PRELUDE)

    # ---------------- the constructors
    inits = {}

    def init_of(tree, cls, cname):
        def thunk():
            return translate_init(find(tree, "__init__", cls), cls, cname, consts, funs2, classes, inits)

        def done():
            if not find(tree, "__init__", cls).args.args[1:]:
                inits[cls] = cname
        return thunk, done
    emit("GInit.v", [("table.HeaderTable.__init__",) + init_of(trees["table"], "HeaderTable", "HeaderTable_init"),
                     ("hpack.Decoder.__init__",) + init_of(hp, "Decoder", "Decoder_init"),
                     ("hpack.Encoder.__init__",) + init_of(hp, "Encoder", "Encoder_init")], imp)

    for h in helpers:
        # the helpers that nothing uses are translated all the same, to be reported
        try:
            h.ensure()
        except Unsupported as e:
            status.setdefault(h.key, f"unsupported: {h.error}")
    for h in helpers:
        if h.error is not None:
            status[h.key] = f"unsupported: {h.error}"

    # ---------------- GProv.v: the one fact about the code that Model/Prov.v is parameterised by (C17), inferred from
    # the source by the tag analysis of provtags.py (fails closed: anything it does not understand counts as a view)
    try:
        import provtags
        flag, report = provtags.literal_copies(trees["hpack"], trees["huffman_table"])
        status["hpack.Decoder.<provenance of stored and returned literals>"] = \
            "translated" if flag else "unsupported: a literal is stored or returned without a copy: " + "; ".join(report)
    except Exception as e:  # noqa: BLE001
        flag, report = False, ["tag analysis crashed: %r" % (e,)]
        status["hpack.Decoder.<provenance of stored and returned literals>"] = "unsupported: " + report[0]
    write_if_changed(os.path.join(out, "GProv.v"),
                     "(* GENERATED by tools/py2coq (provtags.py) from /repo/src/hpack/hpack.py -- do not edit *)\n"
                     "(* does Decoder._decode_literal copy the literals out of the caller's buffer before storing / returning them?\n"
                     + "".join("   %s\n" % r.replace("*)", "* )") for r in report) + "*)\n"
                     f"Definition literal_copies : bool := {'true' if flag else 'false'}.\n")

    # the handler types that were translated as exact-constructor `catch`
    write_if_changed(os.path.join(out, "GExnUse.v"),
                     "(* GENERATED by tools/py2coq -- do not edit *)\nFrom Coq Require Import List.\n"
                     "From HV Require Import Prelude.Py.\nImport ListNotations.\n\n"
                     "(* the types T of the `except T:` handlers that Gen/ renders as [catch T] (exactly the constructor T) *)\n"
                     f"Definition HANDLER_LEAVES : list exn := [{'; '.join(sorted(HANDLER_LEAVES))}].\n")
    write_if_changed(os.path.join(out, "status.json"), json.dumps(status, indent=1, sort_keys=True) + "\n")
    bad_ = {k: v for k, v in status.items() if v != "translated"}
    for k, v in sorted(bad_.items()):
        print(f"py2coq: {k}: {v}", file=sys.stderr)


def runtime_mapping(src):
    import subprocess
    code = ("import json,sys\nfrom hpack.table import HeaderTable\nm=HeaderTable.STATIC_TABLE_MAPPING\n"
            "assert type(m) is dict\nout=[]\n"
            "for k,(i,d) in m.items():\n"
            "    assert type(k) is bytes and type(i) is int and type(d) is dict\n"
            "    out.append([k.hex(), i, [[kk.hex(), vv] for kk,vv in d.items() if type(kk) is bytes and type(vv) is int]])\n"
            "    assert len(out[-1][2]) == len(d)\n"
            "json.dump(out, sys.stdout)\n")
    env = dict(os.environ, PYTHONPATH=os.path.dirname(os.path.abspath(src)), PYTHONHASHSEED="0", PYTHONDONTWRITEBYTECODE="1",
               PYTHONPYCACHEPREFIX="/nonexistent/hv-no-pyc")
    r = subprocess.run([sys.executable, "-c", code], env=env, capture_output=True, text=True, timeout=60)
    if r.returncode != 0:
        raise Unsupported("importing hpack.table failed: " + r.stderr.strip().splitlines()[-1] if r.stderr.strip() else "?")
    return MappingList([(bytes.fromhex(k), (i, PairList([(bytes.fromhex(kk), vv) for kk, vv in d])))
                        for k, i, d in json.loads(r.stdout)])


class PairList(list):
    """a list that is always rendered as a Coq list (even when short or empty)"""


class MappingList(PairList):
    pass


def write_if_changed(path, text):
    try:
        if open(path).read() == text:
            return
    except OSError:
        pass
    with open(path, "w") as f:
        f.write(text)


if __name__ == "__main__":
    main()
