#!/usr/bin/env python3
"""Fail-closed purity check of /repo/src/hpack (C20): what licenses modelling every instance
as a record of its own and the shared tables as immutable constants.

usage: purity.py <src-dir (…/src/hpack)> [<out.json>]

Reports (file:line: rule) every place where a function or method body
  * declares `global` / `nonlocal`;
  * assigns, augments or deletes an attribute or item of a module-level name, of a class
    (`HeaderTable.X = …`, `cls.X`, `type(self).X`, `self.__class__.X`) or of a local alias of
    such an object (`m = HeaderTable.STATIC_TABLE_MAPPING.get(k); m[1][v] = …`);
  * calls a mutating method (append, extend, insert, pop, remove, clear, update, setdefault,
    popitem, sort, reverse, add, discard, appendleft, popleft, extendleft, rotate,
    __setitem__, __delitem__, __setattr__) on such an object or alias;
  * uses setattr/delattr/globals/vars/exec/eval/__dict__;
  * has a mutable default argument;
  * reads an instance attribute that `__init__` does not create, or creates one in
    `__init__` from a shared mutable object;
  * makes behaviour depend on hash order, object identity, time, randomness, the environment
    or the logging level (hash, id, random, time, os.environ, uuid, secrets, isEnabledFor,
    getEffectiveLevel, iteration over a set);
and every class-level attribute that is a mutable container (instance state shared between
instances).  Import-time code at module level is allowed to build the shared tables; the
functions it calls are checked like any other (a builder may mutate only its own locals).
Exit status 0 iff nothing is reported.
"""
import ast
import json
import os
import sys

MUTATORS = {"append", "extend", "insert", "pop", "remove", "clear", "update", "setdefault", "popitem", "sort",
            "reverse", "add", "discard", "appendleft", "popleft", "extendleft", "rotate", "__setitem__",
            "__delitem__", "__setattr__", "__delattr__", "__iadd__", "__ior__"}
FORBIDDEN_CALLS = {"setattr", "delattr", "globals", "vars", "exec", "eval", "hash", "id", "locals", "__import__"}
FORBIDDEN_MODULES = {"random", "time", "os", "uuid", "secrets", "datetime", "threading", "weakref", "gc", "sys"}
LEVEL_ATTRS = {"isEnabledFor", "getEffectiveLevel", "level", "disabled", "handlers"}


def root_name(n):
    while isinstance(n, (ast.Attribute, ast.Subscript, ast.Call)):
        n = n.func if isinstance(n, ast.Call) else n.value
    return n.id if isinstance(n, ast.Name) else None


CLASS_DATA = set()      # names of class-level data attributes and module-level names of the whole package (set by main)


def mentions_class_data(e):
    """does the access path of `e` go through an attribute that is class-level data somewhere in the package
    (self.STATIC_TABLE_MAPPING, obj.table.STATIC_TABLE ...)?  Such an object is shared whatever it is reached from."""
    x = e
    while isinstance(x, (ast.Attribute, ast.Subscript, ast.Call)):
        if isinstance(x, ast.Attribute) and x.attr in CLASS_DATA:
            return True
        x = x.func if isinstance(x, ast.Call) else x.value
    return False


def collect_class_data(tree):
    out = set()
    for n in tree.body:
        if isinstance(n, ast.ClassDef):
            for m in n.body:
                if isinstance(m, (ast.Assign, ast.AnnAssign)):
                    for t in (m.targets if isinstance(m, ast.Assign) else [m.target]):
                        if isinstance(t, ast.Name) and t.id not in ("__slots__",):
                            out.add(t.id)
        # attributes attached to a class at module level: HeaderTable.STATIC_TABLE_MAPPING = ...
        if isinstance(n, (ast.Assign, ast.AnnAssign)):
            for t in (n.targets if isinstance(n, ast.Assign) else [n.target]):
                if isinstance(t, ast.Attribute):
                    out.add(t.attr)
    return out


def check_file(path, fname, out):
    tree = ast.parse(open(path).read())
    shared = set()         # module-level names (incl. imported ones) and classes
    classes = {}
    for n in tree.body:
        if isinstance(n, (ast.Assign, ast.AnnAssign)):
            for t in (n.targets if isinstance(n, ast.Assign) else [n.target]):
                for x in ast.walk(t):
                    if isinstance(x, ast.Name):
                        shared.add(x.id)
        elif isinstance(n, (ast.Import, ast.ImportFrom)):
            for a in n.names:
                nm = (a.asname or a.name).split(".")[0]
                shared.add(nm)
                if isinstance(n, ast.Import) and nm in FORBIDDEN_MODULES and nm != "sys":
                    out.append("%s:%d: import of %s (time/randomness/environment dependence)" % (fname, n.lineno, nm))
        elif isinstance(n, ast.ClassDef):
            shared.add(n.name)
            classes[n.name] = n
        elif isinstance(n, ast.FunctionDef):
            shared.add(n.name)
    shared.discard("log")

    def check_function(fd, cls):
        params = {a.arg for a in fd.args.args + fd.args.kwonlyargs}
        if fd.args.vararg:
            params.add(fd.args.vararg.arg)
        for d in fd.args.defaults + [x for x in fd.args.kw_defaults if x is not None]:
            if isinstance(d, (ast.List, ast.Dict, ast.Set, ast.Call, ast.ListComp, ast.DictComp)):
                out.append("%s:%d: mutable default argument in %s" % (fname, d.lineno, fd.name))
        local_fresh = set()    # locals bound to objects created in this call
        alias = set()          # locals that may alias a shared object
        # one forward pass over assignments (order of first binding), conservative
        for s in ast.walk(fd):
            if isinstance(s, (ast.Global, ast.Nonlocal)):
                out.append("%s:%d: %s statement in %s" % (fname, s.lineno, type(s).__name__.lower(), fd.name))
        for s in ast.walk(fd):
            # any binding whose right-hand side mentions a shared object ANYWHERE (tuple targets, displays, conditional
            # expressions, subscripts of displays ...): every name it binds may alias it
            if isinstance(s, (ast.Assign, ast.AnnAssign, ast.NamedExpr, ast.For, ast.comprehension, ast.withitem)):
                val = getattr(s, "value", None) or getattr(s, "iter", None) or getattr(s, "context_expr", None)
                tgs = s.targets if isinstance(s, ast.Assign) else [getattr(s, "target", None) or getattr(s, "optional_vars", None)]
                if val is not None and any(mentions_class_data(x) or (isinstance(x, ast.Name) and x.id in shared and x.id not in params
                                                                      and not isinstance(val, ast.Call)) for x in ast.walk(val)):
                    for tg in tgs:
                        for x in (ast.walk(tg) if tg is not None else []):
                            if isinstance(x, ast.Name):
                                alias.add(x.id)
            if isinstance(s, ast.Assign) and len(s.targets) == 1 and isinstance(s.targets[0], ast.Name):
                r = root_name(s.value)
                if r in shared and r not in params and not isinstance(s.value, ast.Call) or \
                        (isinstance(s.value, ast.Call) and isinstance(s.value.func, ast.Attribute)
                         and root_name(s.value.func.value) in (shared | alias) and s.value.func.attr in ("get", "setdefault", "__getitem__")):
                    alias.add(s.targets[0].id)
                elif r in alias:
                    alias.add(s.targets[0].id)
                elif mentions_class_data(s.value):
                    alias.add(s.targets[0].id)       # m = self.STATIC_TABLE_MAPPING.get(k): a shared object
            if isinstance(s, ast.For):
                r = root_name(s.iter)
                if r in shared or r in alias:
                    for x in ast.walk(s.target):
                        if isinstance(x, ast.Name):
                            alias.add(x.id)
                if isinstance(s.iter, (ast.Set, ast.SetComp)) or (isinstance(s.iter, ast.Call) and isinstance(s.iter.func, ast.Name)
                                                                  and s.iter.func.id in ("set", "frozenset")):
                    out.append("%s:%d: iteration over a set (hash order) in %s" % (fname, s.lineno, fd.name))
        alias -= params

        def is_shared_expr(e):
            r = root_name(e)
            if mentions_class_data(e):
                return True
            if r is None:
                return False
            if r in ("cls",):
                return True
            if r == "self":
                # self.__class__.X, type(self).X handled below; attributes that __init__ took from parameters
                x = e
                while isinstance(x, (ast.Attribute, ast.Subscript)):
                    if isinstance(x, ast.Attribute) and x.attr == "__class__":
                        return True
                    x = x.value
                return False
            return (r in shared or r in alias) and r not in params

        for s in ast.walk(fd):
            tgts = []
            if isinstance(s, ast.Assign):
                tgts = s.targets
            elif isinstance(s, (ast.AugAssign, ast.AnnAssign)):
                tgts = [s.target]
            elif isinstance(s, ast.Delete):
                tgts = s.targets
            for t in tgts:
                for x in ([t] if not isinstance(t, ast.Tuple) else t.elts):
                    if isinstance(x, (ast.Attribute, ast.Subscript)) and is_shared_expr(x.value):
                        out.append("%s:%d: %s writes to shared object `%s`" % (fname, s.lineno, fd.name, ast.unparse(x)))
                    if isinstance(x, (ast.Attribute, ast.Subscript)) and isinstance(x.value, ast.Call) \
                            and isinstance(x.value.func, ast.Name) and x.value.func.id == "type":
                        out.append("%s:%d: %s writes through type(...)" % (fname, s.lineno, fd.name))
            if isinstance(s, ast.Call):
                f = s.func
                if isinstance(f, ast.Attribute) and f.attr in MUTATORS and is_shared_expr(f.value):
                    out.append("%s:%d: %s calls mutating method `%s` on shared object" % (fname, s.lineno, fd.name, ast.unparse(f)))
                if isinstance(f, ast.Name) and f.id in FORBIDDEN_CALLS:
                    out.append("%s:%d: %s calls %s()" % (fname, s.lineno, fd.name, f.id))
                if isinstance(f, ast.Attribute) and f.attr in LEVEL_ATTRS and root_name(f) in ("log", "logging"):
                    out.append("%s:%d: %s depends on the logging level (%s)" % (fname, s.lineno, fd.name, f.attr))
                if isinstance(f, ast.Attribute) and root_name(f) in FORBIDDEN_MODULES and root_name(f) in shared | {"os", "time", "random"}:
                    out.append("%s:%d: %s calls %s" % (fname, s.lineno, fd.name, ast.unparse(f)))
            if isinstance(s, ast.Attribute) and s.attr in ("__dict__", "__globals__", "__class__") \
                    and isinstance(getattr(s, "ctx", None), ast.Load) and s.attr != "__class__":
                out.append("%s:%d: %s uses %s" % (fname, s.lineno, fd.name, s.attr))
            if isinstance(s, ast.Attribute) and s.attr in LEVEL_ATTRS and root_name(s) in ("log", "logging") \
                    and not isinstance(getattr(s, "ctx", None), ast.Store):
                # attribute read such as log.level in a condition
                out.append("%s:%d: %s reads logging state (%s)" % (fname, s.lineno, fd.name, s.attr))

    for n in tree.body:
        if isinstance(n, ast.FunctionDef):
            check_function(n, None)
        if isinstance(n, ast.ClassDef):
            init_attrs, class_attrs = set(), set()
            for m in n.body:
                if isinstance(m, (ast.Assign, ast.AnnAssign)):
                    tg = m.targets if isinstance(m, ast.Assign) else [m.target]
                    for t in tg:
                        if isinstance(t, ast.Name):
                            class_attrs.add(t.id)
                            v = m.value
                            if isinstance(v, (ast.List, ast.Dict, ast.Set, ast.ListComp, ast.DictComp)) or \
                                    (isinstance(v, ast.Call) and isinstance(v.func, ast.Name)
                                     and v.func.id in ("list", "dict", "set", "deque", "bytearray", "defaultdict", "OrderedDict")):
                                out.append("%s:%d: class-level mutable attribute %s.%s (shared between instances)"
                                           % (fname, m.lineno, n.name, t.id))
                if isinstance(m, ast.FunctionDef):
                    class_attrs.add(m.name)
                    check_function(m, n.name)
                    if m.name == "__init__":
                        for s in ast.walk(m):
                            if isinstance(s, (ast.Assign, ast.AnnAssign)):
                                tg = s.targets if isinstance(s, ast.Assign) else [s.target]
                                for t in tg:
                                    if isinstance(t, ast.Attribute) and isinstance(t.value, ast.Name) and t.value.id == "self":
                                        init_attrs.add(t.attr)
                                        v = s.value
                                        if isinstance(v, ast.Name) and v.id in shared:
                                            out.append("%s:%d: %s.__init__ stores the shared object %s as instance state"
                                                       % (fname, s.lineno, n.name, v.id))
                                        if isinstance(v, ast.Attribute) and root_name(v) in shared and root_name(v) != "self" \
                                                and not (isinstance(v.value, ast.Name) and v.attr.isupper() is False and False):
                                            # e.g. self.x = HeaderTable.STATIC_TABLE_MAPPING ; constants like DEFAULT_SIZE are ints
                                            if v.attr not in ("DEFAULT_SIZE",):
                                                out.append("%s:%d: %s.__init__ stores shared attribute %s as instance state"
                                                           % (fname, s.lineno, n.name, ast.unparse(v)))
            # inherited attributes: look through base classes defined in this file
            bases = [b.id for b in n.bases if isinstance(b, ast.Name) and b.id in classes]
            inherited = set()
            for b in bases:
                for m in classes[b].body:
                    if isinstance(m, ast.FunctionDef):
                        inherited.add(m.name)
                    if isinstance(m, (ast.Assign, ast.AnnAssign)):
                        for t in (m.targets if isinstance(m, ast.Assign) else [m.target]):
                            if isinstance(t, ast.Name):
                                inherited.add(t.id)
            has_init = any(isinstance(m, ast.FunctionDef) and m.name == "__init__" for m in n.body)
            for m in n.body:
                if isinstance(m, ast.FunctionDef) and has_init:
                    for s in ast.walk(m):
                        if isinstance(s, ast.Attribute) and isinstance(s.value, ast.Name) and s.value.id == "self" \
                                and isinstance(s.ctx, ast.Load) and not s.attr.startswith("__"):
                            if s.attr not in init_attrs and s.attr not in class_attrs and s.attr not in inherited:
                                out.append("%s:%d: %s.%s reads self.%s, which __init__ does not create"
                                           % (fname, s.lineno, n.name, m.name, s.attr))
                        if isinstance(s, (ast.Assign, ast.AugAssign)) and m.name != "__init__":
                            for t in (s.targets if isinstance(s, ast.Assign) else [s.target]):
                                if isinstance(t, ast.Attribute) and isinstance(t.value, ast.Name) and t.value.id == "self" \
                                        and t.attr not in init_attrs and t.attr not in class_attrs:
                                    out.append("%s:%d: %s.%s creates instance attribute self.%s outside __init__"
                                               % (fname, s.lineno, n.name, m.name, t.attr))


def main():
    src = sys.argv[1]
    out = []
    files = sorted(f for f in os.listdir(src) if f.endswith(".py"))
    CLASS_DATA.clear()
    for f in files:
        try:
            CLASS_DATA.update(collect_class_data(ast.parse(open(os.path.join(src, f)).read())))
        except SyntaxError:
            pass
    CLASS_DATA.discard("indexable")      # (read-only booleans of the two tuple classes)
    for f in files:
        try:
            check_file(os.path.join(src, f), f, out)
        except SyntaxError as e:
            out.append("%s: syntax error %s" % (f, e))
    out = sorted(set(out))
    rec = {"files": files, "violations": out}
    if len(sys.argv) > 2:
        json.dump(rec, open(sys.argv[2], "w"), indent=1)
    for v in out:
        print("purity:", v)
    sys.exit(1 if out else 0)


if __name__ == "__main__":
    main()
