#!/usr/bin/env python3
"""Static provenance tags for what the Decoder stores and returns (C17).

Model/Prov.v is parameterised by one fact about the code: `copy` -- are the literals copied out of the
caller's buffer (`bytes(...)`) before they are put in the header table and in the returned header?  The
theorems of Props/C17.v hold for `copy = true` and are refuted for `copy = false`.  This module INFERS that
fact from the source on every run, by a small abstract interpretation of `Decoder._decode_literal` (and
the helpers it calls) over three tags, ordered by badness:

  OWNED  < STORED < VIEW
  OWNED   a fresh object (or an immutable constant) that shares no memory with the caller's buffer:
          `bytes(x)`, `bytearray(x)`, `x.tobytes()`, the result of `decode_huffman` (when every `return`
          of that function is `bytes(...)`/a bytes literal), integers, booleans, None, bytes literals,
          the concatenation of two byte strings;
  STORED  an object taken from the header table (owned by induction: everything that is put there is
          checked here), e.g. `self.header_table.get_by_index(i)[0]`;
  VIEW    anything else, in particular every bytes-like PARAMETER (the caller's buffer or a memoryview
          of it), every slice or `memoryview(...)` of a VIEW -- and every construct this analysis does not
          understand (it fails closed: unknown means VIEW).

Result: `literal_copies` = at every `self.header_table.add(n, v)` of `_decode_literal` and in every header
tuple it returns, the tags of name and value are OWNED or STORED.  py2coq writes it to Gen/GProv.v;
Bridge/B_prov.v proves it equal to `true`, and Bridge/S_C17.v states the ownership theorems with the
regenerated flag in place of the literal `true`.

Trusted: these tag rules (they are the Python facts listed in the header of Model/Prov.v; the run-time side
of C17 -- types of retained objects, reference counts, mutate-after-decode -- validates them on the real
interpreter on every run).
"""
import ast

OWNED, STORED, VIEW = 0, 1, 2
HCLASS = -1      # (not a buffer at all: one of the two header-tuple classes held in a local)
NAMES = {OWNED: "Owned", STORED: "Stored", VIEW: "View"}


def worst(t):
    """the worst tag inside a (possibly nested tuple of) tag(s)"""
    if isinstance(t, tuple):
        return max([worst(x) for x in t] or [OWNED])
    return t


def join(a, b):
    if a == HCLASS and b == HCLASS:
        return HCLASS
    if isinstance(a, tuple) and isinstance(b, tuple) and len(a) == len(b):
        return tuple(join(x, y) for x, y in zip(a, b))
    return max(worst(a), worst(b))


class Analysis:
    def __init__(self, hp_tree, huff_tree):
        self.cls = next((n for n in hp_tree.body if isinstance(n, ast.ClassDef) and n.name == "Decoder"), None)
        self.methods = {m.name: m for m in (self.cls.body if self.cls else []) if isinstance(m, ast.FunctionDef)}
        self.funcs = {f.name: f for f in hp_tree.body if isinstance(f, ast.FunctionDef)}
        self.huff_owned = self.returns_fresh_bytes(huff_tree, "decode_huffman")
        self.sites = []          # (kind, line, tags) for every retention site met
        self.byteslike = set()   # names that hold a bytes-like object in the function being analysed
        self.depth = 0
        self.notes = []

    @staticmethod
    def returns_fresh_bytes(tree, name):
        fd = next((f for f in tree.body if isinstance(f, ast.FunctionDef) and f.name == name), None)
        if fd is None:
            return False
        rets = [x for x in ast.walk(fd) if isinstance(x, ast.Return)]
        if not rets:
            return False
        for r in rets:
            v = r.value
            if isinstance(v, ast.Constant) and isinstance(v.value, bytes):
                continue
            if isinstance(v, ast.Call) and isinstance(v.func, ast.Name) and v.func.id == "bytes" and len(v.args) == 1 \
                    and not v.keywords:
                continue
            return False
        return True

    # ---- expressions
    def E(self, n, env):
        if isinstance(n, ast.Constant):
            return OWNED
        if isinstance(n, ast.Name):
            if n.id in ("HeaderTuple", "NeverIndexedHeaderTuple") and n.id not in env:
                return HCLASS                        # one of the two header classes as a value
            return env.get(n.id, VIEW)
        if isinstance(n, ast.Tuple):
            return tuple(self.E(e, env) for e in n.elts)
        if isinstance(n, ast.Starred):
            return self.E(n.value, env)
        if isinstance(n, (ast.Compare, ast.BoolOp)) or (isinstance(n, ast.UnaryOp) and isinstance(n.op, ast.Not)):
            if isinstance(n, ast.BoolOp):
                # `a or b` evaluates to one of its operands
                return max(worst(self.E(v, env)) for v in n.values)
            return OWNED
        if isinstance(n, ast.UnaryOp):
            return OWNED if worst(self.E(n.operand, env)) == OWNED else VIEW
        if isinstance(n, ast.BinOp):
            # arithmetic on integers, or the concatenation / repetition of sequences: a new object either way
            self.E(n.left, env), self.E(n.right, env)
            return OWNED
        if isinstance(n, ast.IfExp):
            return join(self.E(n.body, env), self.E(n.orelse, env))
        if isinstance(n, ast.Subscript):
            v = self.E(n.value, env)
            if isinstance(n.slice, ast.Slice):
                return worst(v)                      # a slice of a view is a view (of bytes: a copy; not assumed)
            if isinstance(v, tuple) and isinstance(n.slice, ast.Constant) and isinstance(n.slice.value, int) \
                    and not isinstance(n.slice.value, bool) and 0 <= n.slice.value < len(v):
                return v[n.slice.value]
            # x[i]: of a bytes-like object an int; of anything else an element as bad as the container
            if self.is_byteslike(n.value, env):
                return OWNED
            return worst(v)
        if isinstance(n, ast.Call):
            return self.call(n, env)
        if isinstance(n, ast.Attribute):
            return OWNED if (isinstance(n.value, ast.Name) and n.value.id == "self") else VIEW
        if isinstance(n, ast.JoinedStr):
            for v in n.values:                        # what an f-string evaluates is evaluated (calls may keep things)
                if isinstance(v, ast.FormattedValue):
                    self.E(v.value, env)
                    if v.format_spec is not None:
                        self.E(v.format_spec, env)
            return OWNED
        return VIEW

    def is_byteslike(self, n, env):
        """a name that holds a bytes-like object (a parameter annotated bytes, or a slice of one): indexing it gives
        an int"""
        return isinstance(n, ast.Name) and n.id in self.byteslike

    def call(self, n, env):
        f = n.func
        args = [self.E(a, env) for a in n.args] + [self.E(k.value, env) for k in n.keywords]
        if isinstance(f, ast.Name) and env.get(f.id) == HCLASS and not n.keywords \
                and not any(isinstance(a, ast.Starred) for a in n.args):
            return tuple(args)                       # cls(name, value): the tuple of its arguments
        if isinstance(f, ast.Name):
            if f.id in ("bytes", "bytearray") and len(n.args) <= 1:
                return OWNED
            if f.id in ("len", "int", "bool", "ord", "min", "max", "abs", "decode_integer", "isinstance", "range"):
                return OWNED
            if f.id == "decode_huffman":
                return OWNED if self.huff_owned else VIEW
            if f.id == "memoryview" and len(args) == 1:
                return worst(args[0])
            if f.id in ("HeaderTuple", "NeverIndexedHeaderTuple"):
                flat = []
                for a, t in zip(n.args, args):
                    if isinstance(a, ast.Starred) and isinstance(t, tuple):
                        flat += list(t)
                    else:
                        flat.append(t if not isinstance(a, ast.Starred) else worst(t))
                return tuple(flat)
            if f.id in self.funcs and f.id not in ("decode_integer",):
                return self.apply(self.funcs[f.id], None, n, args, env)
            return VIEW
        if isinstance(f, ast.Attribute):
            recv = f.value
            if f.attr == "tobytes":
                return OWNED
            if f.attr in ("decode", "encode", "hex"):
                return OWNED                          # a new str / bytes object
            root = recv
            while isinstance(root, (ast.Attribute, ast.Subscript)):
                root = root.value
            if isinstance(recv, ast.Attribute) and isinstance(recv.value, ast.Name) and recv.value.id == "self" \
                    and recv.attr == "header_table" and f.attr in ("get_by_index", "search") :
                return (STORED, STORED) if f.attr == "get_by_index" else STORED
            if isinstance(recv, ast.Name) and recv.id == "self" and f.attr in self.methods:
                return self.apply(self.methods[f.attr], "self", n, args, env)
            if isinstance(recv, ast.Name) and recv.id in ("log", "logging") and recv.id not in env:
                return OWNED
            if isinstance(root, ast.Name) and root.id == "self":
                # ANY other call on an object reached from self (self.header_table.add(...), with positional or keyword
                # arguments; self.header_table.dynamic_entries.appendleft(...); self.anything.method(...)): what it is
                # given may be kept -- a retention site for every argument
                flat = args if args else [OWNED]
                self.sites.append(("handed to self.%s (may be kept)" % ast.unparse(f)[5:60], n.lineno,
                                   (max(worst(a) for a in flat), max(worst(a) for a in flat)) if len(flat) != 2
                                   else (flat[0], flat[1])))
                return OWNED if f.attr in ("add", "append", "appendleft", "clear", "extend", "insert") else VIEW
            return VIEW
        return VIEW

    def apply(self, fd, selfname, call, args, env):
        """the tag(s) a helper returns for these argument tags"""
        if self.depth > 6 or fd.args.vararg or fd.args.kwarg:
            return VIEW
        params = [a.arg for a in fd.args.args]
        if selfname:
            params = params[1:]
        env2 = {}
        pos = list(call.args)
        for i, p in enumerate(params):
            if i < len(pos):
                env2[p] = self.E(pos[i], env)
            else:
                kw = next((k for k in call.keywords if k.arg == p), None)
                env2[p] = self.E(kw.value, env) if kw else OWNED      # a default value is a constant
        self.depth += 1
        saved = self.byteslike
        self.byteslike = self.annot_bytes(fd)
        r = self.body(fd.body, env2)
        self.byteslike = saved
        self.depth -= 1
        return r if r is not None else OWNED

    @staticmethod
    def annot_bytes(fd):
        out = set()
        for a in fd.args.args:
            if a.annotation is not None and ast.unparse(a.annotation) in ("bytes", "memoryview", "bytearray",
                                                                           "bytes | bytearray", "bytes | memoryview"):
                out.add(a.arg)
        return out

    # ---- statements: returns the join of the tags of the values returned (None when nothing returns)
    def body(self, stmts, env):
        ret = None

        def add(t):
            nonlocal ret
            ret = t if ret is None else join(ret, t)
        for s in stmts:
            if isinstance(s, (ast.Pass, ast.Break, ast.Continue)):
                continue
            if isinstance(s, ast.Raise):
                for part in (s.exc, s.cause):          # what a raise evaluates is evaluated (calls may keep things)
                    if part is not None:
                        self.E(part, env)
                continue
            if isinstance(s, ast.Expr):
                self.E(s.value, env)
                continue
            if isinstance(s, ast.AnnAssign):
                if s.value is not None and isinstance(s.target, ast.Name):
                    env[s.target.id] = self.E(s.value, env)
                continue
            if isinstance(s, ast.Assign):
                t = self.E(s.value, env)
                for tgt in s.targets:
                    self.bind(tgt, t, env, s.value)
                continue
            if isinstance(s, ast.AugAssign):
                if isinstance(s.target, ast.Name):
                    env[s.target.id] = join(env.get(s.target.id, VIEW), OWNED if isinstance(s.op, (ast.Add, ast.Sub, ast.Mult, ast.BitAnd, ast.BitOr, ast.LShift, ast.RShift)) else VIEW)
                continue
            if isinstance(s, ast.Return):
                if s.value is not None:
                    t = self.E(s.value, env)
                    add(t)
                else:
                    add(OWNED)
                continue
            if isinstance(s, ast.If):
                self.E(s.test, env)
                e1, e2 = dict(env), dict(env)
                r1 = self.body(s.body, e1)
                r2 = self.body(s.orelse, e2)
                for r in (r1, r2):
                    if r is not None:
                        add(r)
                for k in set(e1) | set(e2):
                    env[k] = join(e1.get(k, VIEW), e2.get(k, VIEW))
                continue
            if isinstance(s, (ast.For, ast.While)):
                for _ in range(3):                       # a small fixpoint: tags only get worse
                    e1 = dict(env)
                    if isinstance(s, ast.For):
                        self.bind(s.target, worst(self.E(s.iter, e1)), e1, None)
                    r = self.body(s.body + s.orelse, e1)
                    if r is not None:
                        add(r)
                    for k in set(e1):
                        env[k] = join(env.get(k, e1[k]), e1[k])
                continue
            if isinstance(s, ast.Try):
                parts = [s.body, s.orelse, s.finalbody] + [h.body for h in s.handlers]
                envs = []
                for p in parts:
                    e1 = dict(env)
                    r = self.body(p, e1)
                    if r is not None:
                        add(r)
                    envs.append(e1)
                for e1 in envs:
                    for k in e1:
                        env[k] = join(env.get(k, e1[k]), e1[k])
                continue
            # anything else (with, nested def, global, del ...): not understood
            self.notes.append("line %d: %s statement not understood" % (s.lineno, type(s).__name__))
            for x in ast.walk(s):
                if isinstance(x, ast.Name) and isinstance(x.ctx, ast.Store):
                    env[x.id] = VIEW
        return ret

    def bind(self, tgt, t, env, value):
        if isinstance(tgt, ast.Name):
            env[tgt.id] = t
            self.byteslike = self.byteslike - {tgt.id}       # rebound: no longer known to be a bytes-like object
            if value is not None and isinstance(value, ast.Subscript) and isinstance(value.slice, ast.Slice) \
                    and self.is_byteslike(value.value, env):
                self.byteslike = self.byteslike | {tgt.id}
        elif isinstance(tgt, (ast.Tuple, ast.List)):
            if isinstance(t, tuple) and len(t) == len(tgt.elts):
                for e, x in zip(tgt.elts, t):
                    self.bind(e, x, env, None)
            else:
                for e in tgt.elts:
                    self.bind(e, worst(t), env, None)
        elif isinstance(tgt, (ast.Attribute, ast.Subscript)):
            root = tgt
            while isinstance(root, (ast.Attribute, ast.Subscript)):
                root = root.value
            if isinstance(root, ast.Name) and (root.id == "self" or worst(env.get(root.id, VIEW)) != OWNED or True):
                # stored into an object (self.x = v, self.d[k] = v, some_list[i] = v): it may outlive the call
                self.sites.append(("stored into %s" % ast.unparse(tgt)[:50], getattr(tgt, "lineno", 0), (worst(t), worst(t))))


def literal_copies(hp_tree, huff_tree):
    """(flag, report): does Decoder._decode_literal only store / return owned names and values?"""
    a = Analysis(hp_tree, huff_tree)
    fd = a.methods.get("_decode_literal")
    if fd is None:
        return False, ["Decoder._decode_literal not found"]
    params = [x.arg for x in fd.args.args][1:]
    env = {p: VIEW for p in params}
    # the flags and counters among the parameters hold no buffer
    for x in fd.args.args[1:]:
        if x.annotation is not None and ast.unparse(x.annotation) in ("bool", "int"):
            env[x.arg] = OWNED
    a.byteslike = a.annot_bytes(fd)
    ret = a.body(fd.body, env)
    report = list(a.notes)
    ok = True
    if not a.sites:
        # _decode_literal is the method that inserts literals: an analysis that saw no retention site has missed it
        report.append("no retention site found in _decode_literal (the insertion into the header table was not recognised)")
        ok = False
    for kind, line, tags in a.sites:
        w = worst(tags)
        report.append("line %d: %s: name %s, value %s" % (line, kind, NAMES[worst(tags[0])], NAMES[worst(tags[1])]))
        if w == VIEW:
            ok = False
    # what is returned: (header, consumed) with header = (name, value)
    if ret is None:
        report.append("no return value found")
        ok = False
    else:
        hdr = ret[0] if isinstance(ret, tuple) and ret else ret
        report.append("returned header: %s" % (", ".join(NAMES[worst(x)] for x in hdr) if isinstance(hdr, tuple) else NAMES[worst(hdr)]))
        if worst(hdr) == VIEW:
            ok = False
    if a.notes:
        ok = False
    # every other method of Decoder: nothing derived from a bytes-like parameter may be stored into the decoder or
    # handed to one of its objects (what _decode_literal returns and stores was checked above)
    for name, m in a.methods.items():
        if name in ("_decode_literal", "__init__", "__repr__"):
            continue
        b = Analysis(hp_tree, huff_tree)
        env = {}
        for x in m.args.args[1:]:
            env[x.arg] = OWNED if (x.annotation is not None and ast.unparse(x.annotation) in ("bool", "int")) else VIEW
        b.byteslike = b.annot_bytes(m)
        b.body(m.body, env)
        for kind, line, tags in b.sites:
            if worst(tags) == VIEW:
                report.append("Decoder.%s line %d: %s: a view of the caller's buffer" % (name, line, kind))
                ok = False
        for nt in b.notes:
            report.append("Decoder.%s: %s" % (name, nt))
            ok = False
    return ok, report


if __name__ == "__main__":
    import os
    import sys
    src = sys.argv[1]
    hp = ast.parse(open(os.path.join(src, "hpack.py")).read())
    ht = ast.parse(open(os.path.join(src, "huffman_table.py")).read())
    flag, rep = literal_copies(hp, ht)
    print("literal_copies =", flag)
    for r in rep:
        print("  ", r)
