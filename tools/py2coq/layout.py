#!/usr/bin/env python3
"""Fail-closed check that WHAT RUNS is WHAT WAS TRANSLATED.

The translator (py2coq.py) reads the bodies of named definitions.  That ties the model to the
code only if nothing else can change what those names do at run time.  This script refuses
(prints `layout: <file>:<line>: <reason>`, exit 1) every way of doing that which it can see:

static (ast, every file of the package):
  * files or directories in src/ or src/hpack/ beyond the known set (a shadow package
    `table/`, a `.pth` file, a new module);
  * module-level statements other than: docstring, imports of a whitelist of modules (and of
    sibling modules), `if TYPE_CHECKING:` import blocks, `NAME = <constant expression>`,
    `log = logging.getLogger(__name__)`, type aliases, `__all__`/`__version__`, `def`, `class`,
    and the one known import-time initialisation
    `HeaderTable.STATIC_TABLE_MAPPING = _build_static_table_mapping()`;
  * decorators other than `@property` / `@<prop>.setter`; duplicate definitions of a name;
    unexpected base classes, class keywords, nested classes, dunder hooks
    (`__setattr__`, `__getattribute__`, `__getattr__`, `__init_subclass__`, …) on the translated classes;
  * `log.*(...)` calls whose arguments contain a call or anything else that could have a
    side effect (the translator drops log calls: their arguments must be inert);

dynamic (imports the package from this very tree in a subprocess):
  * every function/method found statically must be, at run time, a plain function whose code
    object comes from that file and that line (no rebinding, no monkeypatching from
    `__init__`, no wrapper);
  * the MRO of every class is the one the source shows; its namespace holds no extra callables.

usage: layout.py <repo>/src [<out.json>]
"""
import ast
import json
import os
import subprocess
import sys

PKG_FILES = {"__init__.py", "exceptions.py", "hpack.py", "huffman.py", "huffman_constants.py", "huffman_table.py",
             "struct.py", "table.py", "py.typed"}
OK_IMPORTS = {"logging", "typing", "collections", "collections.abc", "typing_extensions", "__future__"}
EXPECTED_BASES = {      # (exceptions.py: see the class branch of static_check)
    "HeaderTuple": ["tuple[bytes, bytes]"], "NeverIndexedHeaderTuple": ["HeaderTuple"],
    "HeaderTable": [], "HuffmanEncoder": [], "Encoder": [], "Decoder": [],
}
HOOKS = {"__setattr__", "__getattribute__", "__getattr__", "__delattr__", "__init_subclass__", "__set_name__",
         "__class_getitem__", "__get__", "__set__", "__call__", "__del__", "__hash__", "__eq__", "__iter__", "__len__",
         "__getitem__", "__bool__", "__contains__", "__enter__", "__exit__"}
ALLOWED_DUNDERS = {"__init__", "__repr__", "__new__"}


def const_expr(n, names):
    """is this a literal / arithmetic over literals and earlier constants (what the translator's ConstEnv accepts)"""
    if isinstance(n, ast.Constant):
        return True
    if isinstance(n, ast.Name):
        return n.id in names
    if isinstance(n, (ast.Tuple, ast.List)):
        return all(const_expr(e, names) for e in n.elts)
    if isinstance(n, ast.UnaryOp) and isinstance(n.op, ast.USub):
        return const_expr(n.operand, names)
    if isinstance(n, ast.BinOp):
        return const_expr(n.left, names) and const_expr(n.right, names)
    if isinstance(n, ast.Call) and isinstance(n.func, ast.Name) and n.func.id == "len" and len(n.args) == 1 and not n.keywords:
        return const_expr(n.args[0], names)
    if isinstance(n, ast.ListComp) and len(n.generators) == 1:
        g = n.generators[0]
        return (isinstance(g.target, ast.Name) and not g.ifs and isinstance(g.iter, ast.Call)
                and isinstance(g.iter.func, ast.Name) and g.iter.func.id == "range"
                and all(const_expr(a, names) for a in g.iter.args)
                and const_expr(n.elt, names | {g.target.id}))
    return False


def inert(n):
    """an argument of a log call whose EVALUATION cannot raise or have an effect (the call is dropped by the translator;
    only the lazy formatting is swallowed by `logging`, the arguments are evaluated by the caller): a constant, a
    local name, an attribute path from `self`, `len(<name>)`, a tuple of those.  Arithmetic (ZeroDivisionError,
    TypeError), subscripts (IndexError, KeyError), attributes of other objects and other calls are refused."""
    if isinstance(n, (ast.Constant, ast.Name)):
        return True
    if isinstance(n, ast.Attribute):
        x = n
        while isinstance(x, ast.Attribute):
            x = x.value
        return isinstance(x, ast.Name) and x.id == "self"
    if isinstance(n, ast.Tuple):
        return all(inert(e) for e in n.elts)
    if isinstance(n, ast.Call) and isinstance(n.func, ast.Name) and n.func.id == "len" and not n.keywords \
            and len(n.args) == 1 and isinstance(n.args[0], ast.Name):
        return True
    return False


def check_imports(n, fname, out, siblings):
    if isinstance(n, ast.Import):
        for a in n.names:
            if a.name not in OK_IMPORTS:
                out.append("%s:%d: import of %s" % (fname, n.lineno, a.name))
        return True
    if isinstance(n, ast.ImportFrom):
        if n.level == 0 and n.module not in OK_IMPORTS:
            out.append("%s:%d: import from %s" % (fname, n.lineno, n.module))
        if n.level > 1 or (n.level == 1 and n.module is not None and n.module.split(".")[0] not in siblings):
            out.append("%s:%d: relative import of %s" % (fname, n.lineno, n.module))
        for a in n.names:
            if a.name == "*":
                out.append("%s:%d: star import from %s" % (fname, n.lineno, n.module))
        if n.level >= 1:
            for a in n.names:
                if a.asname is not None and a.asname != a.name:
                    # a name of the package bound to another object of the package (an exception class exported under
                    # the name of another one, a function standing in for another)
                    out.append("%s:%d: `%s` imported under the name `%s`" % (fname, n.lineno, a.name, a.asname))
        return True
    return False


def static_check(src, out, defs):
    pkg = os.path.join(src, "hpack")
    for e in sorted(os.listdir(src)):
        if e == "hpack" or e.endswith(".egg-info") or e == "__pycache__":
            continue
        out.append("src/%s: unexpected entry next to the package (could shadow or extend it)" % e)
    for e in sorted(os.listdir(pkg)):
        if e == "__pycache__":
            continue
        if e not in PKG_FILES or os.path.isdir(os.path.join(pkg, e)):
            if not os.path.isdir(os.path.join(pkg, e)) and not e.endswith((".py", ".pyc", ".pyo", ".pyd", ".so", ".pth", ".pyi", ".dll", ".dylib")):
                continue      # (an editor backup, .DS_Store, *.orig ...: nothing the interpreter can import)
            out.append("hpack/%s: unexpected file or directory in the package" % e)
    siblings = {f[:-3] for f in PKG_FILES if f.endswith(".py")}
    for fname in sorted(f for f in PKG_FILES if f.endswith(".py")):
        path = os.path.join(pkg, fname)
        if not os.path.exists(path):
            out.append("hpack/%s: missing" % fname)
            continue
        try:
            tree = ast.parse(open(path).read())
        except SyntaxError as e:
            out.append("%s: syntax error %s" % (fname, e))
            continue
        names = set()
        seen = set()
        mod = fname[:-3]
        check_annotations(tree, fname, out)
        for n in tree.body:
            if isinstance(n, ast.Expr) and isinstance(n.value, ast.Constant) and isinstance(n.value.value, str):
                continue
            if isinstance(n, (ast.Import, ast.ImportFrom)):
                for a in n.names:
                    nm_ = (a.asname or a.name).split(".")[0]
                    if nm_ in seen:
                        out.append("%s:%d: %s imported although already bound in this module" % (fname, n.lineno, nm_))
                    seen.add(nm_)
            if mod == "__init__" and isinstance(n, (ast.FunctionDef, ast.AsyncFunctionDef, ast.ClassDef)):
                out.append("%s:%d: the package's __init__ defines %s (it may only import and list names)" % (fname, n.lineno, n.name))
            if check_imports(n, fname, out, siblings):
                continue
            if isinstance(n, ast.If) and isinstance(n.test, ast.Name) and n.test.id == "TYPE_CHECKING" and not n.orelse:
                for b in n.body:
                    if not (check_imports(b, fname, out, siblings) or isinstance(b, ast.Pass)):
                        out.append("%s:%d: statement under TYPE_CHECKING" % (fname, b.lineno))
                continue
            if isinstance(n, (ast.Assign, ast.AnnAssign)):
                tgts = n.targets if isinstance(n, ast.Assign) else [n.target]
                val = n.value
                if len(tgts) == 1 and isinstance(tgts[0], ast.Name):
                    nm = tgts[0].id
                    if nm in seen:
                        out.append("%s:%d: %s bound twice at module level" % (fname, n.lineno, nm))
                    seen.add(nm)
                    if val is None:
                        continue
                    if nm == "log" and ast.unparse(val) == "logging.getLogger(__name__)":
                        continue
                    if isinstance(n, ast.AnnAssign) and ast.unparse(n.annotation) == "TypeAlias" and isinstance(val, ast.Constant):
                        continue
                    if nm in ("__all__", "__version__") and const_expr(val, set()):
                        continue
                    if const_expr(val, names):
                        names.add(nm)
                        continue
                    out.append("%s:%d: module-level `%s = %s` is not a constant expression" % (fname, n.lineno, nm, ast.unparse(val)[:60]))
                    continue
                if (mod == "table" and len(tgts) == 1 and ast.unparse(tgts[0]) == "HeaderTable.STATIC_TABLE_MAPPING"
                        and val is not None and ast.unparse(val) == "_build_static_table_mapping()"):
                    if "mapping_init" in seen:
                        out.append("%s:%d: STATIC_TABLE_MAPPING initialised twice" % (fname, n.lineno))
                    seen.add("mapping_init")
                    continue
                out.append("%s:%d: module-level assignment to `%s`" % (fname, n.lineno, ast.unparse(tgts[0])[:60]))
                continue
            if isinstance(n, ast.FunctionDef):
                if n.decorator_list:
                    out.append("%s:%d: decorator on %s" % (fname, n.lineno, n.name))
                if n.name in seen:
                    out.append("%s:%d: %s defined twice" % (fname, n.lineno, n.name))
                seen.add(n.name)
                defs.append((mod, None, n.name, n.lineno, "function"))
                check_body(n, fname, out)
                continue
            if isinstance(n, ast.ClassDef):
                if n.decorator_list or n.keywords:
                    out.append("%s:%d: decorator or keyword on class %s" % (fname, n.lineno, n.name))
                if n.name in seen:
                    out.append("%s:%d: %s defined twice" % (fname, n.lineno, n.name))
                seen.add(n.name)
                bases = [ast.unparse(b) for b in n.bases]
                if mod == "exceptions":
                    # the class headers of exceptions.py are DATA of the translation (Gen/GExn.v) and what they
                    # must satisfy is proved in Bridge/B_exn.v; here only the form: named bases, nothing else
                    if not n.bases or not all(isinstance(b, ast.Name) for b in n.bases):
                        out.append("%s:%d: class %s: bases must be plain class names" % (fname, n.lineno, n.name))
                elif n.name not in EXPECTED_BASES:
                    out.append("%s:%d: unexpected class %s" % (fname, n.lineno, n.name))
                elif bases != EXPECTED_BASES[n.name]:
                    out.append("%s:%d: class %s has bases %s, expected %s" % (fname, n.lineno, n.name, bases, EXPECTED_BASES[n.name]))
                defs.append((mod, bases if mod == "exceptions" else None, n.name, n.lineno, "class"))
                cnames = {}
                for m in n.body:
                    if isinstance(m, ast.Expr) and isinstance(m.value, ast.Constant):
                        continue
                    if isinstance(m, (ast.Assign, ast.AnnAssign)):
                        tg = m.targets if isinstance(m, ast.Assign) else [m.target]
                        if not (len(tg) == 1 and isinstance(tg[0], ast.Name)):
                            out.append("%s:%d: class-level assignment target in %s" % (fname, m.lineno, n.name))
                            continue
                        v = m.value
                        if v is not None and not const_expr(v, names | set(cnames)):
                            out.append("%s:%d: class attribute %s.%s is not a constant expression" % (fname, m.lineno, n.name, tg[0].id))
                        if tg[0].id in cnames and v is not None:
                            out.append("%s:%d: %s.%s bound twice" % (fname, m.lineno, n.name, tg[0].id))
                        cnames[tg[0].id] = "attr"
                        continue
                    if isinstance(m, ast.FunctionDef):
                        kinds = [ast.unparse(d) for d in m.decorator_list]
                        if kinds == []:
                            kind = "method"
                        elif kinds == ["property"]:
                            kind = "getter"
                        elif kinds == [m.name + ".setter"]:
                            kind = "setter"
                        else:
                            kind = "method"
                            out.append("%s:%d: decorator %s on %s.%s" % (fname, m.lineno, kinds, n.name, m.name))
                        key = (m.name, kind)
                        if key in cnames or (kind == "method" and m.name in {k[0] if isinstance(k, tuple) else k for k in cnames}):
                            out.append("%s:%d: %s.%s defined twice" % (fname, m.lineno, n.name, m.name))
                        cnames[key] = kind
                        if m.name.startswith("__") and m.name.endswith("__") and (m.name in HOOKS or m.name not in ALLOWED_DUNDERS):
                            out.append("%s:%d: special method %s.%s" % (fname, m.lineno, n.name, m.name))
                        if m.name == "__new__" and mod != "struct":
                            # (struct.py's two constructors are checked word for word by the translator; nowhere else)
                            out.append("%s:%d: %s.__new__ (only the tuple classes of struct.py may define it)" % (fname, m.lineno, n.name))
                        if kind in ("getter", "setter") and (n.name, m.name) not in KNOWN_PROPERTIES:
                            # a property is code that runs on an attribute access the translation renders as a field read
                            out.append("%s:%d: property %s.%s is not one of the translated properties" % (fname, m.lineno, n.name, m.name))
                        if m.name == "__repr__":
                            check_repr(m, fname, n.name, out)
                        if (n.name, m.name) in EXPECTED_DEFAULTS and kind == "method":
                            a_ = m.args
                            pos = a_.args[len(a_.args) - len(a_.defaults):]
                            have = {p_.arg: ast.unparse(d_) for p_, d_ in zip(pos, a_.defaults)}
                            have.update({p_.arg: ast.unparse(d_) for p_, d_ in zip(a_.kwonlyargs, a_.kw_defaults) if d_ is not None})
                            if have != EXPECTED_DEFAULTS[(n.name, m.name)]:
                                out.append("%s:%d: default arguments of %s.%s are %s, expected %s"
                                           % (fname, m.lineno, n.name, m.name, have, EXPECTED_DEFAULTS[(n.name, m.name)]))
                        line = min([m.lineno] + [d.lineno for d in m.decorator_list])
                        defs.append((mod, n.name, m.name, line, kind))
                        check_body(m, fname, out)
                        continue
                    if isinstance(m, ast.Pass):
                        continue
                    out.append("%s:%d: %s statement in the body of class %s" % (fname, m.lineno, type(m).__name__, n.name))
                continue
            out.append("%s:%d: module-level %s statement" % (fname, n.lineno, type(n).__name__))


KNOWN_PROPERTIES = {("HeaderTable", "maxsize"), ("Encoder", "header_table_size"), ("Decoder", "header_table_size")}
# public entry points: the default values of their parameters (the model and the runner always pass them explicitly)
EXPECTED_DEFAULTS = {
    ("Decoder", "decode"): {"raw": "False"}, ("Encoder", "encode"): {"huffman": "True"},
    ("Decoder", "__init__"): {"max_header_list_size": "DEFAULT_MAX_HEADER_LIST_SIZE"},
    ("HeaderTable", "__init__"): {}, ("Encoder", "__init__"): {},
}


def check_repr(fd, fname, cname, out):
    """__repr__ is not translated and can run from translated code (an object formatted into a message, a log line under
    a DEBUG handler): it must be a single `return` of an expression that only READS -- constants, self and its attributes,
    % / + / tuples / f-string parts, and the builtins repr str list tuple len type"""
    body = [st for st in fd.body if not (isinstance(st, ast.Expr) and isinstance(st.value, ast.Constant))]
    if len(body) != 1 or not isinstance(body[0], ast.Return) or body[0].value is None:
        out.append("%s:%d: %s.__repr__ is more than one return statement" % (fname, fd.lineno, cname))
        return
    for x in ast.walk(body[0].value):
        if isinstance(x, ast.BinOp) and not (isinstance(x.op, ast.Mod) and isinstance(x.left, ast.Constant) and isinstance(x.left.value, str)):
            out.append("%s:%d: %s.__repr__ computes (only `\"<format>\" %% (...)` is allowed there)" % (fname, x.lineno, cname))
            continue
        if isinstance(x, ast.FormattedValue) and x.format_spec is not None:
            out.append("%s:%d: %s.__repr__ uses a format specification" % (fname, x.lineno, cname))
            continue
        if isinstance(x, (ast.Constant, ast.Name, ast.Attribute, ast.BinOp, ast.Tuple, ast.List, ast.JoinedStr, ast.FormattedValue,
                          ast.Load, ast.operator, ast.Mod, ast.Add)):
            if isinstance(x, ast.Name) and x.id not in ("self", "repr", "str", "list", "tuple", "len", "type"):
                out.append("%s:%d: %s.__repr__ uses the name %s" % (fname, x.lineno, cname, x.id))
            continue
        if isinstance(x, ast.Call) and isinstance(x.func, ast.Name) and x.func.id in ("repr", "str", "list", "tuple", "len", "type") \
                and not x.keywords:
            continue
        out.append("%s:%d: %s.__repr__ contains a %s (only reads are allowed there)" % (fname, getattr(x, "lineno", fd.lineno), cname, type(x).__name__))


def inert_annotation(a):
    """an annotation whose evaluation cannot do anything: names, attributes, subscripts, constants, tuples/lists, `|`"""
    for x in ast.walk(a):
        if not isinstance(x, (ast.Name, ast.Attribute, ast.Subscript, ast.Constant, ast.Tuple, ast.List, ast.BinOp, ast.BitOr,
                              ast.Load, ast.expr_context)):
            return False
        if isinstance(x, ast.BinOp) and not isinstance(x.op, ast.BitOr):
            return False
    return True


def check_annotations(tree, fname, out):
    for x in ast.walk(tree):
        anns = []
        if isinstance(x, ast.AnnAssign):
            anns.append(x.annotation)
        if isinstance(x, (ast.FunctionDef, ast.AsyncFunctionDef)):
            anns += [a.annotation for a in x.args.args + x.args.kwonlyargs + x.args.posonlyargs if a.annotation is not None]
            anns += [a.annotation for a in (x.args.vararg, x.args.kwarg) if a is not None and a.annotation is not None]
            if x.returns is not None:
                anns.append(x.returns)
            for d in x.args.defaults + [k for k in x.args.kw_defaults if k is not None]:
                if not isinstance(d, (ast.Constant, ast.Name)):
                    out.append("%s:%d: default value of a parameter of %s is not a constant or a name" % (fname, d.lineno, x.name))
        for a in anns:
            if not inert_annotation(a):
                out.append("%s:%d: annotation `%s` is more than names, subscripts and `|` (it is evaluated when the module loads)"
                           % (fname, a.lineno, ast.unparse(a)[:60]))


def check_body(fd, fname, out):
    for s in ast.walk(fd):
        # a function object stored into an attribute or an item would run in place of translated code
        if isinstance(s, (ast.Assign, ast.AnnAssign, ast.AugAssign)):
            tg = s.targets if isinstance(s, ast.Assign) else [s.target]
            if any(isinstance(t, (ast.Attribute, ast.Subscript)) for t in tg) and s.value is not None \
                    and any(isinstance(v, ast.Lambda) for v in ast.walk(s.value)):
                out.append("%s:%d: a lambda is stored into an attribute or item in %s" % (fname, s.lineno, fd.name))
    for s in ast.walk(fd):
        if isinstance(s, (ast.FunctionDef, ast.AsyncFunctionDef, ast.ClassDef, ast.Lambda)) and s is not fd:
            if not isinstance(s, ast.Lambda):
                out.append("%s:%d: nested definition %s in %s" % (fname, s.lineno, getattr(s, "name", "?"), fd.name))
        if isinstance(s, ast.Call) and isinstance(s.func, ast.Attribute) and isinstance(s.func.value, ast.Name) \
                and s.func.value.id in ("log", "logging"):
            for a in list(s.args) + [k.value for k in s.keywords]:
                if not inert(a):
                    out.append("%s:%d: log call in %s with an argument that is evaluated for effect: %s"
                               % (fname, s.lineno, fd.name, ast.unparse(a)[:60]))
        if isinstance(s, (ast.Import, ast.ImportFrom)):
            out.append("%s:%d: import inside %s" % (fname, s.lineno, fd.name))


RUNTIME = r'''
import json, sys, os, types, importlib
defs = json.load(sys.stdin)
out = []
pkgdir = os.path.realpath(sys.argv[1])
import hpack
if os.path.realpath(os.path.dirname(hpack.__file__)) != pkgdir:
    out.append("hpack is imported from %s, not from the tree under test" % hpack.__file__)
mods = {}
for m in sorted({d[0] for d in defs}):
    mods[m] = importlib.import_module("hpack." + m)
    if os.path.realpath(mods[m].__file__) != os.path.join(pkgdir, m + ".py"):
        out.append("hpack.%s is loaded from %s" % (m, mods[m].__file__))
classes = {}
bases_of = {}
for mod, cls, name, line, kind in defs:
    M = mods[mod]
    want_file = os.path.join(pkgdir, mod + ".py")
    if kind == "class":
        C = M.__dict__.get(name)
        if not isinstance(C, type):
            out.append("hpack.%s.%s is not a class at run time" % (mod, name)); continue
        classes[(mod, name)] = C
        if cls is not None:
            bases_of[name] = cls
        continue
    if cls is None:
        f = M.__dict__.get(name)
    else:
        C = M.__dict__.get(cls)
        raw = C.__dict__.get(name) if isinstance(C, type) else None
        if kind == "getter":
            f = raw.fget if isinstance(raw, property) else None
        elif kind == "setter":
            f = raw.fset if isinstance(raw, property) else None
        else:
            f = raw.__func__ if (name == "__new__" and isinstance(raw, staticmethod)) else raw
    where = "hpack.%s.%s%s" % (mod, (cls + ".") if cls else "", name)
    if not isinstance(f, types.FunctionType):
        out.append("%s is %s at run time, not the function defined in the source" % (where, type(f).__name__)); continue
    co = f.__code__
    if os.path.realpath(co.co_filename) != want_file or co.co_firstlineno != line:
        out.append("%s runs code from %s:%d, not from %s:%d" % (where, co.co_filename, co.co_firstlineno, mod + ".py", line))
    if getattr(f, "__wrapped__", None) is not None:
        out.append("%s is a wrapper" % where)
# namespaces: no callable in a translated class or module that the source does not define
static_names = {}
for mod, cls, name, line, kind in defs:
    static_names.setdefault((mod, None if kind == "class" else cls), set()).add(name)
for (mod, name), C in classes.items():
    mro = [c.__name__ for c in C.__mro__]
    known = static_names.get((mod, name), set())
    for k, v in C.__dict__.items():
        if callable(v) or isinstance(v, (property, staticmethod, classmethod)):
            if k not in known and k not in ("__new__", "__init__", "__repr__") and not isinstance(v, type):
                out.append("hpack.%s.%s has an extra callable attribute %s at run time" % (mod, name, k))
    if mod == "exceptions":
        if [b.__name__ for b in C.__bases__] != bases_of.get(name) or type(C) is not type:
            out.append("hpack.exceptions.%s has bases %s / metaclass %s at run time" % (name, [b.__name__ for b in C.__bases__], type(C).__name__))
    if name in ("HeaderTable", "Encoder", "Decoder", "HuffmanEncoder") and mro != [name, "object"]:
        out.append("hpack.%s.%s has MRO %s at run time" % (mod, name, mro))
# the public names of the package are the objects of that name defined in its modules
for k, v in hpack.__dict__.items():
    if isinstance(v, (type, types.FunctionType)) and getattr(v, "__module__", "").startswith("hpack"):
        if v.__name__ != k:
            out.append("hpack.%s is the object named %s" % (k, v.__name__))
        home = sys.modules.get(v.__module__)
        if home is None or home.__dict__.get(v.__name__) is not v:
            out.append("hpack.%s is not the %s defined in %s" % (k, v.__name__, v.__module__))
for k in getattr(hpack, "__all__", []):
    if k not in hpack.__dict__:
        out.append("hpack.__all__ names %s, which the package does not define" % k)
for m, M in mods.items():
    # ... and within the modules: a class or function bound under another name
    for k, v in M.__dict__.items():
        if isinstance(v, (type, types.FunctionType)) and getattr(v, "__module__", "").startswith("hpack") and v.__name__ != k:
            out.append("hpack.%s.%s is the object named %s" % (m, k, v.__name__))
for m, M in mods.items():
    known = static_names.get((m, None), set())
    for k, v in M.__dict__.items():
        if isinstance(v, types.FunctionType) and v.__module__ == M.__name__ and k not in known:
            out.append("hpack.%s has an extra function %s at run time" % (m, k))
json.dump(out, sys.stdout)
'''


def main():
    src = sys.argv[1]
    out, defs = [], []
    try:
        static_check(src, out, defs)
    except Exception as e:  # noqa: BLE001
        out.append("layout check crashed: %r" % (e,))
    try:
        env = dict(os.environ, PYTHONPATH=os.path.abspath(src), PYTHONHASHSEED="0", PYTHONDONTWRITEBYTECODE="1",
                   PYTHONPYCACHEPREFIX="/nonexistent/hv-no-pyc")
        p = subprocess.run(["/venv/bin/python", "-c", RUNTIME, os.path.join(os.path.abspath(src), "hpack")],
                           input=json.dumps(defs), env=env, capture_output=True, text=True, timeout=120)
        if p.returncode != 0:
            out.append("run-time layout check failed: %s" % (p.stderr.strip().splitlines() or ["?"])[-1])
        else:
            out += ["runtime: " + x for x in json.loads(p.stdout)]
    except Exception as e:  # noqa: BLE001
        out.append("run-time layout check crashed: %r" % (e,))
    out = sorted(set(out))
    if len(sys.argv) > 2:
        json.dump({"violations": out, "definitions": len(defs)}, open(sys.argv[2], "w"), indent=1)
    for v in out:
        print("layout:", v)
    sys.exit(1 if out else 0)


if __name__ == "__main__":
    main()
