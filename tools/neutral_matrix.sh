#!/bin/bash
# usage: neutral_matrix.sh <patch.diff>...      (development aid, not a registered check)
# For each patch: export of /repo HEAD + patch, test suite, layout check, translator, `make -k` over Gen/ and Bridge/
# in a private copy of coq/ -> prints which bridges / definitions no longer check.  Never touches /repo's tree.
set -u
V=$(cd "$(dirname "$0")/.." && pwd)
one() {
  p=$1; n=$(basename $p .diff); W=/var/tmp/nm_$n
  rm -rf $W; mkdir -p $W/src_export
  git -C /repo archive HEAD src tests | tar -x -C $W/src_export
  ( cd $W/src_export && patch -s -p1 < $p ) || { echo "$n: PATCH DOES NOT APPLY"; rm -rf $W; return; }
  t=$( cd $W/src_export && PYTHONPATH=$W/src_export/src timeout 900 /venv/bin/python -m pytest -q -p no:cacheprovider tests 2>&1 | tail -1 | cut -c1-40 )
  lay=$(/venv/bin/python $V/tools/py2coq/layout.py $W/src_export/src 2>&1 | head -3 | tr '\n' ';')
  cp -r $V/coq $W/coq; rm -f $W/coq/Gen/* $W/coq/Bridge/*.vo* $W/coq/Bridge/*.glob $W/coq/Bridge/.*.aux
  /venv/bin/python $V/tools/py2coq/py2coq.py $W/src_export/src/hpack $W/coq/Gen > $W/tr.log 2>&1
  uns=$(grep -c "unsupported" $W/tr.log)
  ( cd $W/coq && { cat _CoqProject; find . -name '*.v' -not -path './Extract/*' | sed 's|^\./||' | sort; } > .CoqProject.all \
    && coq_makefile -f .CoqProject.all -o Makefile >/dev/null && timeout 1500 make -k -j${NMJ:-4} > $W/make.log 2>&1 )
  fails=""
  for f in $W/coq/Gen/*.v $W/coq/Bridge/*.v; do [ -f ${f}o ] || fails="$fails $(basename $f .v)"; done
  echo "$n: tests[$t] layout[${lay:-ok}] unsupported=$uns FAIL:${fails:- none}"
  [ "$uns" != 0 ] && grep unsupported $W/tr.log | head -3 | cut -c1-200
  rm -rf $W
}
for p in "$@"; do one $(realpath $p) & 
  while [ $(jobs -r | wc -l) -ge ${NMP:-4} ]; do sleep 1; done
done; wait
