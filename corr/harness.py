"""Correspondence harness: run the same cases on the real implementation (/repo's working
tree, via corr/impl_runner.py under /venv/bin/python) and on the extracted Coq artefacts
(build/ml_m/driver: frozen model M + specification S; build/ml_g/driver: regenerated
translation G), compare every observable line, and evaluate the per-property ORACLES (the
property's own predicate, instantiated at the case) on the implementation's behaviour.

Nothing here is a proof: it validates the model against the code and searches for failing
inputs.  The deciding obligations are the Coq theorems (see ./check).
"""
import os
import subprocess
import sys
import tempfile

HERE = os.path.dirname(os.path.abspath(__file__))
VERIF = os.path.dirname(HERE)
sys.path.insert(0, HERE)
import spec_py as S  # noqa: E402

REPO_SRC = os.environ.get("HV_REPO_SRC", "/repo/src")
PY = "/venv/bin/python"


def run_impl(cmds, hashseed="0", extra_env=None, timeout=1800):
    with tempfile.TemporaryDirectory(prefix="hv_", dir="/var/tmp") as td:
        cf, of = os.path.join(td, "c.txt"), os.path.join(td, "o.txt")
        open(cf, "w").write("\n".join(cmds) + "\n")
        env = dict(os.environ, PYTHONPATH=REPO_SRC, PYTHONHASHSEED=hashseed, PYTHONDONTWRITEBYTECODE="1",
                   PYTHONPYCACHEPREFIX="/nonexistent/hv-no-pyc")      # (never a cached .pyc: always the source text)
        env.update(extra_env or {})
        p = subprocess.run([PY, os.path.join(HERE, "impl_runner.py"), cf, of], env=env, capture_output=True,
                           text=True, timeout=timeout)
        if p.returncode != 0:
            return None, "impl_runner failed: " + (p.stderr.strip().splitlines() or ["?"])[-1]
        return open(of).read().splitlines(), None


def run_driver(which, cmds, timeout=1800):
    exe = os.path.join(VERIF, "build", "ml_" + which, "driver")
    if not os.path.exists(exe):
        return None, "driver %s not built" % which
    def big_stack():
        # extracted list functions are not tail recursive: long inputs need a deep stack
        import resource
        for lim in (resource.RLIM_INFINITY, 4 << 30, 1 << 30):
            try:
                resource.setrlimit(resource.RLIMIT_STACK, (lim, resource.getrlimit(resource.RLIMIT_STACK)[1]))
                return
            except (ValueError, OSError):
                continue
    p = subprocess.run([exe], input="\n".join(cmds) + "\n", capture_output=True, text=True, timeout=timeout,
                       preexec_fn=big_stack)
    if p.returncode != 0:
        return None, "driver %s failed: %s" % (which, (p.stderr.strip().splitlines() or ["?"])[-1])
    return p.stdout.splitlines(), None


def target_of(cmd):
    w = cmd.split()
    if w[0] == "cost":
        return "N"      # measured on the implementation only (the list-based extracted model is quadratic on long blocks)
    if w[0] in ("enc_int", "dec_int", "henc", "hdec", "tnew", "tadd", "tset", "tget", "tsearch"):
        return w[1]
    return "M"


# ------------------------------------------------------------------ comparison

def compare_line(cmd, impl, other, target):
    """None when `other` (model/gen/spec output) agrees with the implementation's line"""
    w = cmd.split()
    impl = impl.split(" | TY ")[0]          # object types are C17's business only
    if target == "S" and w[0] == "dec_int":
        # the specification has no limit on continuation octets: C11's latitude
        if other == "none":
            return None if impl == "err:HPACKDecodingError" else "spec: truncated, impl: " + impl
        n, k = other[3:].split(",")
        if int(k, 16) - 1 <= 20:
            return None if impl == other else "spec %s, impl %s" % (other, impl)
        return None if impl in (other, "err:HPACKDecodingError") else "spec %s (over-long), impl %s" % (other, impl)
    impl = impl.split(" | RC ")[0].split(" | COST ")[0]
    if w[0] in ("ddec", "pipe", "ddecb", "cost"):
        m = other.split(" | S ")[0]
        return None if impl == m else "model %s, impl %s" % (m, impl)
    if w[0] == "tspec":
        return None if impl == other else "spec lookup %s, impl %s" % (other, impl)
    return None if impl == other else "%s %s, impl %s" % ({"M": "model", "G": "gen", "S": "spec"}[target], other, impl)


def spec_part(line):
    return line.split(" | S ")[1] if " | S " in line else None


def parse_state(line):
    """the table part of a canonical line -> dict(max, cur, rz, ent=[(n, v)]) or None"""
    if " T max=" not in line and not line.startswith("T max="):
        return None
    t = line[line.index("T max="):]
    parts = dict(p.split("=", 1) for p in t.split(" ")[1:] if "=" in p)
    ent = []
    if parts.get("ent"):
        for e in parts["ent"].split(","):
            n, v = e.split(":")
            ent.append((n, v))

    def z(s):
        try:
            return -int(s[1:], 16) if s.startswith("-") else int(s, 16)
        except ValueError:
            return None
    return {"max": z(parts.get("max", "")), "cur": z(parts.get("cur", "")), "rz": parts.get("rz"), "ent": ent,
            "chg": [z(x) for x in parts["chg"].split(",")] if parts.get("chg") else [],
            "lst": z(parts["lst"]) if "lst" in parts else None, "alw": z(parts["alw"]) if "alw" in parts else None}


def unhex(s):
    s = s.split("!")[0]
    return b"" if s == "-" else bytes.fromhex(s)


def ent_size(ent):
    return sum(32 + len(unhex(n)) + len(unhex(v)) for n, v in ent)


def parse_fields(res):
    """'ok:P:6e:76,N:..' -> [(cls, name, value)]"""
    body = res.split(" ")[0][3:]
    if not body:
        return []
    return [tuple(x.split(":")) for x in body.split(",")]


# ------------------------------------------------------------------ oracles (on the implementation's lines)

DOCUMENTED = ("HPACKDecodingError", "InvalidTableIndex", "OversizedHeaderListError", "InvalidTableSizeError")


def oracles(case, impl, model):
    """-> list of (property id, message).  `impl`, `model`: the lines of this case."""
    out = []
    fam = case["family"]
    cmds = case["cmds"]
    prev_state = {}
    for i, cmd in enumerate(cmds):
        w = cmd.split()
        line = impl[i]
        if " | TY " in line:
            line, ty = line.split(" | TY ")
            out.append(("C17", "after `%s` a table entry or returned field is a %s, not an owned bytes/str object"
                        % (cmd[:120], ty)))
            if w[0] in ("ddec", "ddecb", "pipe"):
                # the decoder's results are byte strings (raw mode) or text: another type is not the header list the
                # RFC assigns (it compares equal to it, but e.g. cannot be hashed or is a view that changes later)
                for pid_ in ("C02", "C18", "C01"):
                    out.append((pid_, "after `%s` a returned field or table entry has type %s, not bytes / str" % (cmd[:120], ty)))
        if " | COST " in line:
            line = line.split(" | COST ")[0]
        if " | RC " in line:
            line, rc = line.split(" | RC ")
            delta, resize = rc.split()
            if int(delta) != 0:
                out.append(("C17", "after `%s` the reference count of the caller's buffer changed by %s (something retains it)"
                            % (cmd[:120], delta)))
            if resize == "BufferError":
                out.append(("C17", "after `%s` the caller's bytearray can no longer be resized (a buffer export is retained)" % cmd[:120]))
        res = line.split(" ")[0]
        # ---- C06: table accounting and bound, after every call of every history
        st = parse_state(line)
        if st is not None and st["max"] is not None and st["cur"] is not None:
            size = ent_size(st["ent"])
            if st["cur"] != size:
                out.append(("C06", "accounting %d != sum of entry sizes %d after `%s`" % (st["cur"], size, cmd)))
            if size > max(0, st["max"]):
                out.append(("C06", "table size %d exceeds maximum %d after `%s`" % (size, st["max"], cmd)))
            key = w[1] if w[0][0] in "ed" or w[0] == "pipe" else (w[2] if len(w) > 2 else None)
            if w[0] == "pipe":
                key = w[2]
            # exact eviction behaviour (fit) for the table-level operations
            if w[0] == "tadd" and key in prev_state:
                p = prev_state[key]
                exp = S.fit(p["max"], [(unhex(w[3]), unhex(w[4]))] + [(unhex(a), unhex(b)) for a, b in p["ent"]])
                if [(unhex(a), unhex(b)) for a, b in st["ent"]] != exp:
                    out.append(("C06", "after `%s` the entries are not the longest fitting prefix" % cmd))
            if w[0] == "tset" and key in prev_state and res.startswith("ok"):
                p = prev_state[key]
                exp = S.fit(st["max"], [(unhex(a), unhex(b)) for a, b in p["ent"]])
                if [(unhex(a), unhex(b)) for a, b in st["ent"]] != exp:
                    out.append(("C06", "after `%s` the entries are not the longest fitting prefix" % cmd))
            if key is not None:
                prev_state[key] = st
        # ---- C11
        if w[0] == "enc_int" and w[1] == "M":
            n, N = _z(w[2]), _z(w[3])
            if n >= 0 and 1 <= N <= 8:
                exp = "ok:" + S.int_enc(n, N).hex()
                if res != exp:
                    out.append(("C11", "encode_integer(%d, %d) = %s, section 5.1 gives %s" % (n, N, res, exp)))
            elif res != "err:ValueError":
                out.append(("C11", "encode_integer(%d, %d) = %s, expected ValueError" % (n, N, res)))
        if w[0] == "dec_int" and w[1] == "M":
            N = _z(w[3])
            if not 1 <= N <= 8 and res != "err:ValueError":
                out.append(("C11", "decode_integer(.., %d) = %s, expected ValueError" % (N, res)))
            if res.startswith("err:") and res not in ("err:HPACKDecodingError", "err:ValueError"):
                out.append(("C11", "decode_integer raised %s" % res))
                out.append(("C04", "decode_integer raised %s" % res))
        # ---- C04 / C16 on every decode call
        if w[0] in ("ddec", "pipe", "ddecb") and res.startswith("err:") and res[4:] not in DOCUMENTED:
            out.append(("C04", "decode raised %s on `%s`" % (res[4:], cmd[:200])))
            if res == "err:TIMEOUT":
                out.append(("C16", "decode did not finish within the per-call time limit on `%s`" % cmd[:200]))
        if w[0] in ("hdec",) and res.startswith("err:") and res != "err:HPACKDecodingError":
            out.append(("C13", "decode_huffman raised %s" % res))
        # ---- decoder vs the RFC decoder (C02, C05, C07, C08), using the spec half of the model line
        if w[0] in ("ddec", "pipe") and model is not None:
            sp = spec_part(model[i])
            if sp is not None and res != "skip":
                if sp.startswith("ok:"):
                    if not res.startswith("ok:"):
                        out.append(("C02", "well-formed block rejected with %s: `%s`" % (res, cmd[:200])))
                        out.append(("C05", "well-formed block rejected with %s: `%s`" % (res, cmd[:200])))
                    else:
                        if parse_fields(res) != parse_fields(sp):
                            out.append(("C02", "decoded fields differ from the RFC's on `%s`" % cmd[:200]))
                            fi, fs = parse_fields(res), parse_fields(sp)
                            if len(fi) == len(fs) and any(a[0] != b[0] for a, b in zip(fi, fs)):
                                k = next(j for j, (a, b) in enumerate(zip(fi, fs)) if a[0] != b[0])
                                out.append(("C15", "field %d of `%s` decoded into class %s where the representation prescribes %s "
                                                   "(never-indexed class exactly for never-indexed literals)" % (k, cmd[:160], fi[k][0], fs[k][0])))
                        sst = parse_state(sp)
                        if st is not None and sst is not None and (st["ent"] != sst["ent"] or st["max"] != sst["max"]):
                            out.append(("C02", "table after the block differs from the RFC's on `%s`" % cmd[:200]))
                else:
                    if res.startswith("ok:"):
                        out.append(("C05", "malformed block (%s) accepted: `%s`" % (sp, cmd[:200])))
                        if sp == "err:OversizedHeaderListError":
                            out.append(("C07", "oversized list accepted: `%s`" % cmd[:200]))
                        if sp == "err:InvalidTableSizeError":
                            out.append(("C08", "table size above the permitted maximum accepted: `%s`" % cmd[:200]))
                    elif res != sp:
                        out.append(("C05", "error class %s, RFC class %s, on `%s`" % (res, sp, cmd[:200])))
                        if "OversizedHeaderListError" in (res[4:], sp[4:]):
                            out.append(("C07", "error class %s, RFC class %s, on `%s`" % (res, sp, cmd[:200])))
                        if "InvalidTableSizeError" in (res[4:], sp[4:]):
                            out.append(("C08", "error class %s, RFC class %s, on `%s`" % (res, sp, cmd[:200])))
            # C07 directly: returned list within the limit
            if res.startswith("ok:") and st is not None and st["lst"] is not None:
                sz = sum(32 + len(unhex(n)) + len(unhex(v)) for _, n, v in parse_fields(res))
                if sz > st["lst"]:
                    out.append(("C07", "returned list of size %d exceeds the limit %d" % (sz, st["lst"])))
            # C08 directly: on return the table size is within the permitted maximum
            if res.startswith("ok:") and st is not None and st["alw"] is not None and st["max"] > st["alw"]:
                out.append(("C08", "decode returned with table size %d above the permitted %d" % (st["max"], st["alw"])))
        # ---- C14 on lookups
        if w[0] == "tget" and w[1] == "M" and w[2] in prev_state:
            idx = _z(w[3])
            e = S.lookup(idx, [(unhex(a), unhex(b)) for a, b in prev_state[w[2]]["ent"]])
            exp = "err:InvalidTableIndex" if e is None else "ok:%s:%s" % (_hx(e[0]), _hx(e[1]))
            if res != exp:
                out.append(("C14", "get_by_index(%d) = %s, RFC address space gives %s" % (idx, res, exp)))
        if w[0] == "tsearch" and w[1] == "M" and w[2] in prev_state:
            dyn = [(unhex(a), unhex(b)) for a, b in prev_state[w[2]]["ent"]]
            n, v = unhex(w[3]), unhex(w[4])
            addr = [(k + 1, e) for k, e in enumerate(S.STATIC)] + [(62 + k, e) for k, e in enumerate(dyn)]
            if res.startswith("ok:") and res != "ok:none":
                idx, rn, rv = res[3:].split(",")
                e = S.lookup(_z(idx), dyn)
                if e is None or e[0] != n or (rv != "none" and e[1] != v):
                    out.append(("C14", "search reported index %s which does not resolve to the name/value" % idx))
                if rv == "none" and any(e2 == (n, v) for _, e2 in addr):
                    out.append(("C19", "search missed an exact match for %s:%s" % (w[3], w[4])))
                    out.append(("C14", "search missed an exact match for %s:%s" % (w[3], w[4])))
            elif res == "ok:none" and any(e2[0] == n for _, e2 in addr):
                out.append(("C14", "search found nothing although the name is addressable"))
    # ---- family-level oracles
    if fam == "huff":
        out += _oracle_huff(case, impl)
    if fam == "pair":
        out += _oracle_pair(case, impl, model)
    if fam == "api":
        out += _oracle_api(case, impl)
        if True:
            for pr in case["meta"].get("pairs", []):
                sp = case.get("_shadow", {}).get(pr["enc"])
                if sp is not None and not sp.startswith("ok:"):
                    out.append(("C03", "RFC decoder rejects the block of `%s` with %s" % (case["cmds"][pr["enc"]][:120], sp)))
                elif sp is not None and [(n, v) for _, n, v in parse_fields(sp)] != [(n, v) for n, v, s in pr["fields"]]:
                    out.append(("C03", "RFC decoder recovers different fields from the block of `%s`" % case["cmds"][pr["enc"]][:120]))
    if fam == "cost":
        out += _oracle_cost(case, impl)
    return out


def _oracle_cost(case, impl):
    """C16: the same input shape at lengths n, 2n, 4n: executed lines grow linearly, integers
    are never accumulated beyond 20 continuation octets, helpers get memoryview slices, and
    (support) CPU time grows linearly"""
    out = []
    rows = []
    for cmd, line in zip(case["cmds"], impl):
        if " | COST " not in line:
            continue
        kv = dict(x.split("=", 1) for x in line.split(" | COST ")[1].split())
        rows.append((len(cmd.split()[3]) // 2, int(kv["lines"]), int(kv["maxshift"]), kv["argtypes"], float(kv["t"]), int(kv.get("copied", 0))))
        if line.startswith("err:TIMEOUT"):
            out.append(("C16", "decoding did not finish within the time limit for shape %s at %d octets" % (case["meta"]["shape"], rows[-1][0])))
    shape = case["meta"]["shape"]
    for n, lines, maxshift, argtypes, t, copied in rows:
        if maxshift > 7 * 20:
            out.append(("C16", "shape %s: decode_integer accumulated up to shift %d (> 140) at %d octets: over-long integers are not refused"
                        % (shape, maxshift, n)))
        if copied > 4 * n + 2000:
            out.append(("C16", "shape %s: the helpers were handed copies of the rest of the block (%d octets copied for a block of %d; argument types %s): quadratic in the number of fields"
                        % (shape, copied, n, argtypes)))
    if len(rows) == 3:
        (n1, l1, _, _, t1, _), (_, l2, _, _, t2, _), (n4, l4, _, _, t4, _) = rows
        if l4 > 4.6 * l1 + 200:
            out.append(("C16", "shape %s: executed lines grow faster than linearly: %d lines at %d octets, %d at %d" % (shape, l1, n1, l4, n4)))
        if t1 > 0.003 and t4 > 9.0 * t1 and t4 > 2.6 * t2:
            out.append(("C16", "shape %s: CPU time grows faster than linearly: %.4fs at %d octets, %.4fs at %d, %.4fs at %d"
                        % (shape, t1, n1, t2, 2 * n1, t4, n4)))
    return out


def _oracle_api(case, impl):
    """C18: interchangeable forms give identical output and state; raw/text modes agree"""
    out = []
    clean = [l.split(" | TY ")[0] for l in impl]
    for g in case["meta"]["groups"]:
        ref = clean[g[0]]
        for i in g[1:]:
            if clean[i] != ref:
                out.append(("C18", "forms differ: `%s` gives %s but `%s` gives %s"
                            % (case["cmds"][g[0]][:150], ref[:120], case["cmds"][i][:150], clean[i][:120])))
    # the reference encoder and its peer decoder: round trip (C01), lockstep (C10), RFC meaning (C03),
    # sensitivity (C15) and single index (C19) on the API path
    last_state = {}
    for i, cmd in enumerate(case["cmds"]):
        w = cmd.split()
        if w[0] in ("enew", "eset", "eencf"):
            st = parse_state(clean[i])
            if w[0] == "eencf" and clean[i].startswith("ok:"):
                before = last_state.get(w[1])
                reps, err = S.parse_reps(unhex(clean[i].split(" ")[0][3:]))
                frs = [r for r in reps if r[0] != "size"]
                forms = w[4:]
                if not err and len(frs) == len(forms) and w[3] != "D" and before is not None:
                    dyn = [(unhex(a), unhex(x)) for a, x in before["ent"]]
                    for tok, r in zip(forms, frs):
                        kind, nt, vt = tok.split(",")
                        n, v = unhex(nt[1:] or "-"), unhex(vt[1:] or "-")
                        sens = kind in ("3T", "N")
                        present = (n, v) in S.STATIC or (n, v) in dyn
                        if sens and r[0] == "lit" and r[1] != "never":
                            out.append(("C15", "sensitive field given as form %s was sent as literal '%s' by `%s`" % (kind, r[1], cmd[:120])))
                        if present and r[0] != "idx":
                            out.append(("C19", "field %s:%s is addressable but `%s` sent it as %s" % (_hx(n), _hx(v), cmd[:100], r[0:2])))
                        if r[0] == "lit" and r[1] == "inc":
                            if sens:
                                out.append(("C15", "sensitive field inserted by the encoder's own output"))
                            dyn = S.fit(st["max"], [(n, v)] + dyn)
                    after = [(unhex(a), unhex(x)) for a, x in st["ent"]]
                    if after != dyn:
                        sens_nv = {(unhex(t.split(",")[1][1:] or "-"), unhex(t.split(",")[2][1:] or "-")) for t in forms if t.split(",")[0] in ("3T", "N")}
                        if any(e in sens_nv and e not in dyn for e in after):
                            out.append(("C15", "sensitive field inserted into the encoder table by `%s`" % cmd[:120]))
            if st is not None:
                last_state[w[1]] = st
    for pr in case["meta"].get("pairs", []):
        el, pl = clean[pr["enc"]], clean[pr["pipe"]]
        fields = [(n, v) for n, v, s in pr["fields"]]
        if not el.startswith("ok:"):
            out.append(("C03", "encode raised %s on `%s`" % (el.split(" ")[0], case["cmds"][pr["enc"]][:120])))
            continue
        if pl.startswith("skip"):
            continue
        if not pl.startswith("ok:"):
            out.append(("C01", "decoder raised %s on the block of `%s`" % (pl.split(" ")[0], case["cmds"][pr["enc"]][:120])))
            out.append(("C10", "decoder raised %s on the block of `%s`" % (pl.split(" ")[0], case["cmds"][pr["enc"]][:120])))
            continue
        got = [(n, v) for _, n, v in parse_fields(pl)]
        if got != fields:
            out.append(("C01", "API round trip: `%s` decoded to different fields" % case["cmds"][pr["enc"]][:120]))
        es, ds = parse_state(el), parse_state(pl)
        if es and ds and (es["ent"] != ds["ent"] or es["max"] != ds["max"]):
            out.append(("C10", "tables differ after the block of `%s`" % case["cmds"][pr["enc"]][:120]))
    for a, b in case["meta"]["twins"]:
        ra, rb = clean[a], clean[b]
        sa, sb = ra[ra.index(" T max="):], rb[rb.index(" T max="):]
        if sa != sb:
            out.append(("C18", "raw and text decoding leave different state on `%s`" % case["cmds"][a][:150]))
        fa, fb = ra.split(" ")[0], rb.split(" ")[0]
        if fb.startswith("ok:") and fa != fb:
            out.append(("C18", "raw and text decoding return different fields on `%s`" % case["cmds"][a][:150]))
        if fb.startswith("err:") and fa.startswith("ok:") and fb != "err:HPACKDecodingError":
            out.append(("C18", "text mode fails with %s where raw mode succeeds" % fb))
        if fa.startswith("err:") and fa != fb:
            out.append(("C18", "raw mode %s but text mode %s" % (fa, fb)))
    return out


def _z(s):
    return -int(s[1:], 16) if s.startswith("-") else int(s, 16)


def _hx(b):
    return b.hex() if b else "-"


def _oracle_huff(case, impl):
    out = []
    for i, cmd in enumerate(case["cmds"]):
        w = cmd.split()
        if w[1] != "M":
            continue
        res = impl[i]
        if w[0] == "henc":
            exp = "ok:" + _hx(S.huff_enc(unhex(w[2])))
            if res != exp:
                out.append(("C12", "Huffman encoding of %s is %s, Appendix B gives %s" % (w[2], res, exp)))
        if w[0] == "hdec" and res.startswith("ok:"):
            s = unhex(res[3:])
            if S.huff_enc(s) != unhex(w[2]):
                out.append(("C13", "accepted input %s does not re-encode to itself (decoded %s)" % (w[2], res)))
    return out


def _oracle_pair(case, impl, model):
    """C01 round trip, C10 lockstep, C09 size signalling, C15 sensitivity, C19 single index, C03 (spec half)"""
    out = []
    cmds = case["cmds"]
    blocks = case["meta"]["blocks"]
    bi = 0
    enc_state = None
    enc_before = None
    in_force = None
    last_eenc = None
    for i, cmd in enumerate(cmds):
        w = cmd.split()
        line = impl[i].split(" | TY ")[0]
        res = line.split(" ")[0]
        if w[0] == "enew":
            enc_before = parse_state(line)
            in_force = enc_before["max"] if enc_before else None
        if w[0] == "eset":
            enc_before = parse_state(line)
        if w[0] == "eenc":
            last_eenc = i
            if bi >= len(blocks):
                break
            b = blocks[bi]
            st = parse_state(line)
            if not res.startswith("ok:"):
                out.append(("C03", "encode raised %s" % res))
                enc_before = st
                continue
            data = unhex(res[3:])
            reps, err = S.parse_reps(data)
            if err:
                out.append(("C03", "encoder output is not parseable: %s" % err))
            # C09: updates only at the start; they are exactly what is needed
            first_field = next((k for k, r in enumerate(reps) if r[0] != "size"), len(reps))
            if any(r[0] == "size" for r in reps[first_field:]):
                out.append(("C09", "size update after a field in encoder output %s" % res[3:60]))
            ups = [r[1] for r in reps[:first_field]]
            if b["sets"]:
                final = b["sets"][-1]
                if st is not None and st["max"] != final:
                    out.append(("C09", "encoder table size %s after settings %s" % (st["max"], b["sets"])))
                pre = in_force
                changed = any(v != pre for v in b["sets"]) if pre is not None else None
                if changed and (not ups or ups[-1] != final):
                    out.append(("C09", "settings %s (size before %s) signalled as %s" % (b["sets"], pre, ups)))
                if changed and min(b["sets"]) not in ups and min(b["sets"]) != pre:
                    out.append(("C09", "smallest size %d of settings %s not signalled (%s)" % (min(b["sets"]), b["sets"], ups)))
                # the last clause of C09 (known finding D2 when the application itself set the larger value)
                for u in ups:
                    if u > final:
                        out.append(("C09", "D2:update %d exceeds the size in force %d (settings %s)" % (u, final, b["sets"])))
            elif ups:
                out.append(("C09", "size update %s emitted although no size was set" % ups))
            # C15 / C19 on the representation trace, field by field
            fields = [(unhex(n), unhex(v), bool(s)) for n, v, s in b["fields"]]
            frs = reps[first_field:]
            if not err and len(frs) != len(fields):
                out.append(("C03", "%d representations for %d fields" % (len(frs), len(fields))))
            elif not err and enc_before is not None:
                dyn = [(unhex(a), unhex(x)) for a, x in enc_before["ent"]]
                size = st["max"]
                for (n, v, s), r in zip(fields, frs):
                    present = any(e == (n, v) for e in S.STATIC) or (n, v) in dyn
                    if present and r[0] != "idx":
                        out.append(("C19", "field %s:%s is addressable but was sent as %s" % (_hx(n), _hx(v), r[0:3])))
                    if r[0] == "idx":
                        if S.lookup(r[1], dyn) != (n, v):
                            out.append(("C03", "index %d does not resolve to the field %s:%s" % (r[1], _hx(n), _hx(v))))
                    else:
                        if s and r[1] != "never":
                            out.append(("C15", "sensitive field %s:%s sent as literal '%s'" % (_hx(n), _hx(v), r[1])))
                        if r[1] == "inc":
                            dyn = S.fit(size, [(n, v)] + dyn)
                final_dyn = [(unhex(a), unhex(x)) for a, x in st["ent"]]
                if final_dyn != dyn:
                    sens = [(n, v) for n, v, s in fields if s]
                    culprit = [e for e in final_dyn if e in sens and e not in dyn]
                    if culprit:
                        out.append(("C15", "sensitive field inserted into the encoder table: %s" % _hx(culprit[0][0])))
                    out.append(("C10", "encoder table differs from what its own output implies"))
                if present_dup(final_dyn):
                    out.append(("C19", "duplicate entry in the encoder table after the block"))
            enc_state = st
            enc_before = st
            in_force = st["max"] if st else None
        if w[0] == "pipe":
            if bi >= len(blocks):
                break
            b = blocks[bi]
            bi += 1
            if res == "skip":
                continue
            fields = [(n, v) for n, v, s in b["fields"]]
            if not res.startswith("ok:"):
                out.append(("C01", "decoder raised %s on the encoder's block %d" % (res, bi - 1)))
                out.append(("C10", "decoder raised %s on the encoder's block %d" % (res, bi - 1)))
            else:
                got = [(n.split("!")[0], v.split("!")[0]) for _, n, v in parse_fields(res)]
                if got != fields:
                    out.append(("C01", "block %d decoded to different fields" % (bi - 1)))
                for (c, _, _), (_, _, s) in zip(parse_fields(res), b["fields"]):
                    if c not in ("P", "N"):
                        out.append(("C15", "decoded tuple class %s" % c))
                dst = parse_state(line)
                if enc_state is not None and dst is not None:
                    if dst["ent"] != enc_state["ent"] or dst["max"] != enc_state["max"]:
                        out.append(("C10", "tables differ after block %d: encoder %d entries max %s, decoder %d entries max %s"
                                    % (bi - 1, len(enc_state["ent"]), enc_state["max"], len(dst["ent"]), dst["max"])))
                    sens = {(n, v) for n, v, s in b["fields"] if s}
            # C03: the specification decoder on the bytes the real encoder emitted for this block
            sp = case.get("_shadow", {}).get(last_eenc)
            if sp is not None:
                if not sp.startswith("ok:"):
                    out.append(("C03", "RFC decoder rejects the encoder's block %d with %s" % (bi - 1, sp)))
                elif sp is not None and [(n, v) for _, n, v in parse_fields(sp)] != fields:
                    out.append(("C03", "RFC decoder recovers different fields from block %d" % (bi - 1)))
    return out


def present_dup(dyn):
    return len(set(dyn)) != len(dyn)


# ------------------------------------------------------------------ running a batch of cases

def run_cases(cases, want_gen=True):
    """-> dict(diffs=[...], oracle=[...], errors=[...], evaluations=int)"""
    cmds_all, owner = [], []
    for ci, c in enumerate(cases):
        for k, cmd in enumerate(c["cmds"]):
            cmds_all.append(cmd)
            owner.append((ci, k))
    res = {"diffs": [], "oracle": [], "errors": [], "evaluations": len(cmds_all)}
    impl, err = run_impl(cmds_all)
    if err:
        res["errors"].append(err)
        return res
    if len(impl) != len(cmds_all):
        res["errors"].append("impl_runner printed %d lines for %d commands" % (len(impl), len(cmds_all)))
        return res
    idx_m = [i for i, c in enumerate(cmds_all) if target_of(c) in ("M", "S")]
    idx_g = [i for i, c in enumerate(cmds_all) if target_of(c) == "G"]
    other = [None] * len(cmds_all)
    mo, err = run_driver("m", [cmds_all[i] for i in idx_m])
    if err:
        res["errors"].append(err)
    else:
        for i, l in zip(idx_m, mo):
            other[i] = l
    if want_gen and idx_g:
        go, err = run_driver("g", [cmds_all[i] for i in idx_g])
        if err:
            res["gen_unavailable"] = err
        else:
            for i, l in zip(idx_g, go):
                other[i] = l
    # C03: an independent RFC decoder (the extracted Spec, inside a shadow model decoder) is fed the
    # bytes the REAL encoder produced, block by block
    shadow_cmds, shadow_owner = [], []
    for gi, cmd in enumerate(cmds_all):
        w = cmd.split()
        ci = owner[gi][0]
        if cases[ci]["family"] not in ("pair", "api"):
            continue
        if w[0] == "enew":
            shadow_cmds.append("dnew sh_%s %x" % (w[1], 2 ** 40))
            shadow_owner.append(None)
            shadow_cmds.append("dsetmax sh_%s %x" % (w[1], 2 ** 40))
            shadow_owner.append(None)
        elif w[0] in ("eenc", "eencf"):
            line = impl[gi].split(" | TY ")[0]
            if line.startswith("ok:"):
                shadow_cmds.append("ddec sh_%s 1 %s" % (w[1], line.split(" ")[0][3:] or "-"))
                shadow_owner.append(gi)
    shadow = {}
    if shadow_cmds:
        so, err = run_driver("m", shadow_cmds)
        if err:
            res["errors"].append(err)
        else:
            for gi, l in zip(shadow_owner, so):
                if gi is not None:
                    shadow[gi] = spec_part(l)
    # per case
    pos = 0
    for ci, c in enumerate(cases):
        n = len(c["cmds"])
        il = impl[pos:pos + n]
        ol = other[pos:pos + n]
        c["_shadow"] = {gi - pos: v for gi, v in shadow.items() if pos <= gi < pos + n}
        for k, cmd in enumerate(c["cmds"]):
            if ol[k] is None:
                continue
            d = compare_line(cmd, il[k], ol[k], target_of(cmd))
            if d:
                res["diffs"].append({"case": ci, "line": k, "cmd": cmd if len(cmd) < 2000 else cmd[:2000] + "...",
                                     "target": target_of(cmd), "what": d if len(d) < 1500 else d[:1500] + "..."})
        ml = [x if x is not None else "" for x in ol]
        for pid, msg in oracles(c, il, ml if any(ol) else None):
            res["oracle"].append({"case": ci, "property": pid, "what": msg})
        c.pop("_shadow", None)
        pos += n
    return res


# ------------------------------------------------------------------ C20: isolation and determinism on the real implementation

def run_world(rnd, n_cases, deep=False):
    """The same per-instance histories run (a) one case after the other, (b) interleaved in one
    process, (c) interleaved with logging at DEBUG, (d) under other PYTHONHASHSEED values,
    (e) a sample of cases each alone in a fresh process.  Every line of every instance must be
    identical in all runs, and the digest of the shared objects must never change.
    -> dict(evaluations, cases, failures=[{what, case}], samples)"""
    import gens
    per = max(1, n_cases // 5)
    shared = []     # the instances of one world share a small vocabulary: what one looks up, another has stored
    cases = (gens.gen_pair(rnd, 2 * per, shared_pool=shared) + gens.gen_dec(rnd, per) + gens.gen_table(rnd, max(1, per // 3))
             + gens.gen_api(rnd, per) + gens.gen_prov(rnd, per))
    # G-target commands address a second table object on the implementation side: keep them, they are instances too
    iso, owner_iso = ["snapshot"], [None]
    for ci, c in enumerate(cases):
        for k, cmd in enumerate(c["cmds"]):
            iso.append(cmd)
            owner_iso.append((ci, k))
    iso.append("snapshot")
    owner_iso.append(None)
    # round-robin interleaving with random strides
    pos = [0] * len(cases)
    inter, owner_int = ["snapshot"], [None]
    live = [i for i in range(len(cases)) if cases[i]["cmds"]]
    while live:
        ci = rnd.choice(live)
        for _ in range(rnd.choice([1, 1, 2, 3])):
            if pos[ci] < len(cases[ci]["cmds"]):
                inter.append(cases[ci]["cmds"][pos[ci]])
                owner_int.append((ci, pos[ci]))
                pos[ci] += 1
        if pos[ci] >= len(cases[ci]["cmds"]):
            live.remove(ci)
    inter.append("snapshot")
    owner_int.append(None)

    def norm(l):
        return l.split(" | RC ")[0]      # reference-count deltas are not outputs

    res = {"evaluations": 0, "cases": len(cases), "tagged": len({"\n".join(c["cmds"]) for c in cases if c["tags"]}),
           "failures": [], "errors": [],
           "samples": [{"interleaving_head": inter[:10]}]}
    runs = {}
    plan = [("isolated", iso, owner_iso, "0", {}), ("interleaved", inter, owner_int, "0", {}),
            ("interleaved+DEBUG", inter, owner_int, "0", {"HV_LOG": "DEBUG"}),
            ("interleaved+hashseed1", inter, owner_int, "1", {}),
            ("interleaved+hashseed-random", inter, owner_int, "random", {})]
    if deep:
        plan.append(("isolated+hashseed12345+DEBUG", iso, owner_iso, "12345", {"HV_LOG": "DEBUG"}))
    for name, cmds, owner, hs, env in plan:
        lines, err = run_impl(cmds, hashseed=hs, extra_env=env)
        if err or len(lines) != len(cmds):
            res["errors"].append("%s: %s" % (name, err or "line count"))
            continue
        res["evaluations"] += len(cmds)
        table = {}
        snaps = []
        for o, l in zip(owner, lines):
            if o is None:
                snaps.append(l)
            else:
                table[o] = norm(l)
        runs[name] = (table, snaps)
    if "isolated" not in runs:
        return res
    ref, ref_snaps = runs["isolated"]
    for name, (table, snaps) in runs.items():
        if len(set(snaps + ref_snaps)) != 1:
            res["failures"].append({"what": "the digest of the shared objects (static table, mapping, Huffman tables, module namespaces) changed: %s in run `%s`"
                                            % (snaps + ref_snaps, name), "case": {"family": "world", "cmds": inter[:400], "meta": {}, "tags": []}})
        for key, l in table.items():
            if ref.get(key) != l:
                ci, k = key
                res["failures"].append({"what": "instance output differs between the isolated run and `%s`: command `%s` gave %s vs %s"
                                                % (name, cases[ci]["cmds"][k][:150], (ref.get(key) or "")[:150], l[:150]),
                                        "case": {"family": "world", "cmds": inter[:600], "meta": {"run": name}, "tags": []}})
                break
    # a sample of cases each alone in a fresh process ("instances used earlier do not matter")
    for ci in rnd.sample(range(len(cases)), min(len(cases), 25 if deep else 6)):
        lines, err = run_impl(cases[ci]["cmds"])
        if err:
            res["errors"].append(err)
            continue
        res["evaluations"] += len(lines)
        for k, l in enumerate(lines):
            if norm(l) != ref[(ci, k)]:
                res["failures"].append({"what": "a case run alone in a fresh process differs from the same case run after other instances: `%s` gave %s vs %s"
                                                % (cases[ci]["cmds"][k][:150], norm(l)[:150], ref[(ci, k)][:150]),
                                        "case": {"family": "world", "cmds": iso[:600], "meta": {}, "tags": []}})
                break
    return res


# ------------------------------------------------------------------ constructed witnesses for broken DATA obligations

def _impl_data():
    """the data tables of the implementation under test, dumped by importing it"""
    code = ("import json,sys\n"
            "import hpack.huffman_table as ht, hpack.huffman_constants as hc\n"
            "from hpack.table import HeaderTable\n"
            "json.dump({'table': [list(x) for x in ht.HUFFMAN_TABLE], 'C': ht.HUFFMAN_COMPLETE, 'E': ht.HUFFMAN_EMIT_SYMBOL, 'F': ht.HUFFMAN_FAIL,\n"
            "  'codes': list(hc.REQUEST_CODES), 'lens': list(hc.REQUEST_CODES_LENGTH),\n"
            "  'static': [[n.hex(), v.hex()] for n, v in HeaderTable.STATIC_TABLE]}, sys.stdout)\n")
    env = dict(os.environ, PYTHONPATH=REPO_SRC, PYTHONHASHSEED="0", PYTHONDONTWRITEBYTECODE="1",
               PYTHONPYCACHEPREFIX="/nonexistent/hv-no-pyc")
    p = subprocess.run([PY, "-c", code], env=env, capture_output=True, text=True, timeout=120)
    if p.returncode != 0:
        return None
    import json
    return json.loads(p.stdout)


def data_witnesses():
    """When a data certificate (Huffman decoding table, code lists, static table) no longer
    checks, the failing input is CONSTRUCTED rather than searched: every entry of the
    implementation's tables is compared with the specification's, and for each differing entry
    an input that exercises it is built (a shortest nibble path to the FSM state, the one-symbol
    string, the index).  Returns cases for the ordinary oracles."""
    d = _impl_data()
    cases = []
    if d is None:
        return cases
    # --- code lists: one- and two-symbol strings for every symbol whose code or length differs
    bad_syms = [b for b in range(256) if b >= len(d["codes"]) or b >= len(d["lens"])
                or (d["codes"][b], d["lens"][b]) != S.CODES[b]]
    for b in bad_syms[:64]:
        cmds = []
        for s in (bytes([b]), bytes([b, b]), b"0" + bytes([b]), bytes([b]) + b"0a"):
            cmds += ["henc M %s" % s.hex(), "hdec M %s" % S.huff_enc(s).hex()]
        cases.append({"family": "huff", "cmds": cmds, "meta": {"witness": "code of symbol %d" % b}, "tags": ["witness"]})
    # --- static table: every differing index
    for i, (n, v) in enumerate(d["static"]):
        if i >= len(S.STATIC) or (bytes.fromhex(n), bytes.fromhex(v)) != S.STATIC[i]:
            cases.append({"family": "table", "cmds": ["tnew M w%d" % i, "tget M w%d %x" % (i, i + 1),
                                                      "tsearch M w%d %s %s" % (i, n or "-", v or "-")],
                          "meta": {"witness": "static entry %d" % (i + 1)}, "tags": ["witness"]})
            cases.append({"family": "dec", "cmds": ["dnew wd%d 10000" % i, "ddec wd%d 1 %02x" % (i, 0x80 | (i + 1))],
                          "meta": {"witness": "static entry %d" % (i + 1)}, "tags": ["witness"]})
    if len(d["static"]) != len(S.STATIC):
        cases.append({"family": "dec", "cmds": ["dnew wdl 10000", "ddec wdl 1 bd", "ddec wdl 1 be", "ddec wdl 1 bc"],
                      "meta": {"witness": "static table length"}, "tags": ["witness"]})
    # --- decoding FSM: walk the implementation's table alongside the code tree of the Spec
    codes = {format(c, "0%db" % l): b for b, (c, l) in enumerate(S.CODES)}
    prefixes = set()
    for bits in codes:
        for k in range(len(bits)):
            prefixes.add(bits[:k])

    def ref_step(prefix, nib):
        emitted, fail = None, False
        for ch in format(nib, "04b"):
            prefix += ch
            if prefix in codes:
                if codes[prefix] == 256:
                    fail = True
                    break
                emitted = codes[prefix]
                prefix = ""
            elif prefix not in prefixes:
                fail = True
                break
        return prefix, emitted, fail

    tbl, C, E, F = d["table"], d["C"], d["E"], d["F"]
    path = {0: []}                 # impl state -> nibble path from the root
    pref = {0: ""}
    queue = [0]
    bad = []
    while queue:
        s = queue.pop(0)
        for x in range(16):
            idx = 16 * s + x
            if idx >= len(tbl):
                bad.append((s, x, "missing entry"))
                continue
            ns, fl, sym = tbl[idx]
            rp, remit, rfail = ref_step(pref[s], x)
            accept = len(rp) < 8 and set(rp) <= {"1"}
            if rfail:
                if not (fl & F):
                    bad.append((s, x, "a transition that completes EOS or leaves the code is not marked FAIL"))
                continue
            if fl & F:
                bad.append((s, x, "valid transition marked FAIL"))
                continue
            if bool(fl & E) != (remit is not None) or (remit is not None and sym != remit):
                bad.append((s, x, "emitted symbol"))
            if bool(fl & C) != accept:
                bad.append((s, x, "COMPLETE flag (padding acceptance)"))
            if ns in pref:
                if pref[ns] != rp:
                    bad.append((s, x, "successor state"))
            elif 0 <= ns < len(tbl) // 16 + 1:
                pref[ns] = rp
                path[ns] = path[s] + [x]
                queue.append(ns)
            else:
                bad.append((s, x, "successor state out of range"))
    seen = set()
    for s, x, why in bad[:40]:
        if (s, x) in seen:
            continue
        seen.add((s, x))
        # reach the state by the bits  codes('0' * k) ++ (its prefix) and feed the nibble, choosing k so
        # that the input ends exactly after the nibble; also variants that go on (padding, symbols)
        cands = []
        core = pref.get(s, "") + format(x, "04b")
        for k in range(8):
            bits = "00000" * k + core
            if len(bits) % 8 == 0:
                cands.append(S.bits_to_bytes(bits))
                cands.append(S.bits_to_bytes(bits + "11111111"))
                cands.append(S.bits_to_bytes(bits + "00000" + "111"))
            else:
                pad = (8 - len(bits) % 8) % 8
                cands.append(S.bits_to_bytes(bits + "1" * pad))
                cands.append(S.bits_to_bytes(bits + "0" * pad))
        cmds = []
        for c in cands:
            cmds.append("hdec M %s" % c.hex())
            cmds.append("hdec S %s" % c.hex())
        cases.append({"family": "huff", "cmds": cmds, "meta": {"witness": "FSM state %d nibble %d: %s" % (s, x, why)}, "tags": ["witness"]})
    return cases
