#!/usr/bin/env python3
"""Validation of the Coq SPECIFICATION (not of hpack) against an independent implementation:
libnghttp2's HPACK inflater, through ctypes.  The same sequences of header blocks are decoded
by nghttp2 and by the extracted Spec.SDecoder.decode (the `| S` half of the model driver's
lines); acceptance and the decoded header lists (names, values, never-indexed flag) must agree.

A disagreement is a defect of the transcription in /verif/coq/Spec (or a deliberate deviation of
nghttp2) -- it is reported as a problem of the machinery, never as a property violation.
Skipped silently when the library is not installed.

usage: nghttp2_check.py [n_cases] [seed]      exit 0 = agree / skipped, 2 = disagreement
"""
import ctypes
import ctypes.util
import os
import random
import sys

HERE = os.path.dirname(os.path.abspath(__file__))
sys.path.insert(0, HERE)
import gens  # noqa: E402
import harness  # noqa: E402
import spec_py as S  # noqa: E402


class NV(ctypes.Structure):
    _fields_ = [("name", ctypes.POINTER(ctypes.c_uint8)), ("value", ctypes.POINTER(ctypes.c_uint8)),
                ("namelen", ctypes.c_size_t), ("valuelen", ctypes.c_size_t), ("flags", ctypes.c_uint8)]


def load():
    for name in ("libnghttp2.so.14", ctypes.util.find_library("nghttp2")):
        if not name:
            continue
        try:
            lib = ctypes.CDLL(name)
        except OSError:
            continue
        lib.nghttp2_hd_inflate_new.argtypes = [ctypes.POINTER(ctypes.c_void_p)]
        lib.nghttp2_hd_inflate_hd2.argtypes = [ctypes.c_void_p, ctypes.POINTER(NV), ctypes.POINTER(ctypes.c_int),
                                               ctypes.c_char_p, ctypes.c_size_t, ctypes.c_int]
        lib.nghttp2_hd_inflate_hd2.restype = ctypes.c_ssize_t
        lib.nghttp2_hd_inflate_end_headers.argtypes = [ctypes.c_void_p]
        lib.nghttp2_hd_inflate_del.argtypes = [ctypes.c_void_p]
        lib.nghttp2_hd_inflate_change_table_size.argtypes = [ctypes.c_void_p, ctypes.c_size_t]
        return lib
    return None


def inflate(lib, inf, data):
    """-> list of (never, name, value) or None when nghttp2 rejects the block"""
    out = []
    pos = 0
    buf = bytes(data)
    while True:
        nv = NV()
        flags = ctypes.c_int(0)
        rv = lib.nghttp2_hd_inflate_hd2(inf, ctypes.byref(nv), ctypes.byref(flags), buf[pos:], len(buf) - pos, 1)
        if rv < 0:
            return None
        pos += rv
        if flags.value & 2:
            out.append((bool(nv.flags & 1), ctypes.string_at(nv.name, nv.namelen), ctypes.string_at(nv.value, nv.valuelen)))
        if flags.value & 1:
            lib.nghttp2_hd_inflate_end_headers(inf)
            return out
        if rv == 0 and not (flags.value & 2):
            return None


def main():
    n = int(sys.argv[1]) if len(sys.argv) > 1 else 400
    seed = int(sys.argv[2]) if len(sys.argv) > 2 else 0
    lib = load()
    if lib is None:
        print("nghttp2_check: libnghttp2 not available, skipped")
        return 0
    r = random.Random("nghttp2/%d" % seed)
    # decoder cases with default limits only (nghttp2 has no list-size limit; its table limit is the default 4096)
    cases = []
    while len(cases) < n:
        for c in gens.gen_dec(r, 50):
            cmds = c["cmds"]
            if any(x.split()[0] in ("dsetmax", "dsetsize", "dsetlist") for x in cmds):
                continue
            if any(t in ("defect:long-integer", "defect:redundant-name-index") or t.startswith("list-limit") for t in c["tags"]):
                continue
            # huge list limit, raw mode: the RFC meaning only
            cmds = ["dnew %s %x" % (cmds[0].split()[1], 2 ** 40)] + [" ".join(x.split()[:2] + ["1"] + x.split()[3:]) for x in cmds[1:]]
            cases.append(dict(c, cmds=cmds))
    cases = cases[:n]
    all_cmds = [x for c in cases for x in c["cmds"]]
    lines, err = harness.run_driver("m", all_cmds)
    if err:
        print("nghttp2_check: driver unavailable (%s), skipped" % err)
        return 0
    pos = 0
    blocks = agree = 0
    bad = []
    for c in cases:
        inf = ctypes.c_void_p()
        lib.nghttp2_hd_inflate_new(ctypes.byref(inf))
        dead = False
        for k, cmd in enumerate(c["cmds"]):
            line = lines[pos + k]
            w = cmd.split()
            if w[0] != "ddec" or dead:
                continue
            sp = harness.spec_part(line)
            data = harness.unhex(w[3])
            got = inflate(lib, inf, data)
            blocks += 1
            if sp.startswith("ok:"):
                exp = [(cl == "N", harness.unhex(nm), harness.unhex(v)) for cl, nm, v in harness.parse_fields(sp)]
                if got is None or got != exp:
                    bad.append((cmd[:200], "spec accepts %d fields, nghttp2 %s" % (len(exp), "rejects" if got is None else "differs")))
                else:
                    agree += 1
            else:
                if got is not None:
                    bad.append((cmd[:200], "spec rejects (%s), nghttp2 accepts" % sp))
                else:
                    agree += 1
                dead = True      # after an error the two contexts are no longer comparable
        lib.nghttp2_hd_inflate_del(inf)
        pos += len(c["cmds"])
    # static table: every index through nghttp2
    inf = ctypes.c_void_p()
    lib.nghttp2_hd_inflate_new(ctypes.byref(inf))
    for i, (nm, v) in enumerate(S.STATIC):
        got = inflate(lib, inf, bytes([0x80 | (i + 1)]))
        blocks += 1
        if got != [(False, nm, v)]:
            bad.append(("static index %d" % (i + 1), "Spec/StaticTable.v %r vs nghttp2 %r" % ((nm, v), got)))
        else:
            agree += 1
    # Huffman: every one-symbol string as a never-indexed literal value
    for b in range(256):
        enc = S.huff_enc(bytes([b]))
        got = inflate(lib, inf, b"\x10\x01x" + bytes([0x80 | len(enc)]) + enc)
        blocks += 1
        if got != [(True, b"x", bytes([b]))]:
            bad.append(("huffman symbol %d" % b, "Spec/HuffmanCode.v vs nghttp2 %r" % (got,)))
        else:
            agree += 1
    lib.nghttp2_hd_inflate_del(inf)
    print("nghttp2_check: %d blocks compared, %d agree, %d disagree" % (blocks, agree, len(bad)))
    for cmd, what in bad[:10]:
        print("  ", what, "on", cmd)
    return 2 if bad else 0


if __name__ == "__main__":
    sys.exit(main())
