"""Case generators for the correspondence harness.  Every random choice comes from the one
`random.Random` passed in (seeded from VERIF_SEED), so disagreements replay exactly.

A case is {"family", "cmds": [command lines], "meta": {...}, "tags": [...]}: a small
self-contained history over fresh objects.  Tags record what makes the case non-trivial
(eviction, dynamic index, multi-octet integer, Huffman, rejected input, ...); the harness
counts them into the evidence.
"""
import spec_py as S


def hx(b):
    return b.hex() if b else "-"


def zs(n):
    return ("-" if n < 0 else "") + format(abs(n), "x")


# ------------------------------------------------------------------ vocabulary

STATIC_NAMES = sorted({n for n, _ in S.STATIC})
VALUELESS = [n for n, v in S.STATIC if v == b""]


UTF8_CHARS = ["\u00e9", "\u00df", "\u2603", "\u65e5", "\U0001f600", "a", "z", "0", "-"]


def rand_bytes(r, n, alphabet=None):
    if alphabet == "utf8":
        # n characters of valid, mostly multi-byte UTF-8 (octet length != character length)
        return "".join(r.choice(UTF8_CHARS) for _ in range(n)).encode("utf-8")
    if alphabet == "ascii":
        return bytes(r.choice(b"abcdefghijklmnopqrstuvwxyz0123456789-/.:") for _ in range(n))
    return bytes(r.randrange(256) for _ in range(n))


def rand_len(r):
    return r.choice([0, 0, 1, 1, 2, 3, 5, 8, 13, 30, 60, 126, 127, 128, 129, 300])


def rand_large(r):
    """a size between 256 and 5792 octets, log-uniform (thresholds such as "longer than 1000 / 3000 octets" are met
    from both sides; beyond the default table size the entry does not fit)"""
    return int(2 ** r.uniform(8, 12.5))


def rand_name(r):
    if r.random() < 0.012:
        return rand_bytes(r, rand_large(r), "ascii")
    k = r.random()
    if k < 0.35:
        return r.choice(STATIC_NAMES)
    if k < 0.45:
        return b""
    if k < 0.85:
        return rand_bytes(r, r.choice([1, 1, 2, 3, 6, 10]), "ascii")
    return rand_bytes(r, rand_len(r))


def rand_value(r, name=None):
    if r.random() < 0.02:
        return rand_bytes(r, rand_large(r), "ascii")
    k = r.random()
    if k < 0.25:
        return b""
    if k < 0.45 and name is not None:
        vs = [v for n, v in S.STATIC if n == name]
        if vs:
            return r.choice(vs)
    if k < 0.85:
        return rand_bytes(r, r.choice([1, 1, 2, 4, 9, 20]), "ascii")
    if k > 0.93 and k <= 0.988:
        return rand_bytes(r, r.choice([1, 2, 5, 20, 40]), "utf8")
    if k > 0.988:
        # a long run of one symbol at a power-of-two length (5-, 8- and 13-bit codes): buffer boundaries
        return bytes([r.choice(b"0aX~")]) * r.choice([1023, 1024, 1024, 2048])
    return rand_bytes(r, rand_len(r))


def rand_field(r, pool):
    """(name, value, sensitive) biased to repeat earlier fields and static entries"""
    k = r.random()
    if pool and k < 0.35:
        n, v, _ = r.choice(pool)
        if r.random() < 0.3:
            v = rand_value(r, n)
    elif k < 0.5:
        n, v = r.choice(S.STATIC)
    else:
        n = rand_name(r)
        v = rand_value(r, n)
    f = (n, v, r.random() < 0.2)
    pool.append(f)
    return f


# ------------------------------------------------------------------ integers (C11)

def gen_int(r, k):
    cases = []
    for _ in range(k):
        N = r.randrange(1, 9)
        mx = (1 << N) - 1
        base = r.choice([0, 1, mx - 1, mx, mx + 1, mx + 127, mx + 128, mx + 129, 128 ** 2 + mx - 1, 128 ** 2 + mx,
                         128 ** 3 + mx + r.randrange(5), 2 ** 32 - 1, 2 ** 32, 2 ** 63, 2 ** 64 - 1, 2 ** 64,
                         r.randrange(2 ** 16), r.randrange(2 ** 70), r.randrange(2 ** 140), mx + 128 ** 20 - 1,
                         mx + 128 ** 20, 2 ** 150])
        n = max(0, base)
        tags = []
        cmds = ["enc_int %s %s %s" % (t, zs(n), zs(N)) for t in "MGS"]
        enc = S.int_enc(n, N)
        if len(enc) > 1:
            tags.append("multi-octet")
        hi = r.randrange(256) & ~mx & 0xff
        red = r.choice([0, 0, 0, 1, 2, 5])
        wire = S.int_enc(n, N, hi, red if n >= mx else 0)
        tail = rand_bytes(r, r.choice([0, 0, 1, 3]))
        data = wire + tail
        kind = r.random()
        if kind < 0.15 and len(wire) > 1:
            data = wire[:r.randrange(1, len(wire))]
            tags.append("truncated")
        elif kind < 0.25:
            data = bytes([mx | hi]) + b"\xff" * r.choice([1, 5, 19, 20, 21, 40]) + r.choice([b"", b"\x00", b"\x7f"])
            tags.append("long-run")
        elif kind < 0.32:
            data = bytes([mx | hi]) + b"\x80" * r.choice([0, 1, 18, 19, 20, 21, 22, 300, 2500]) + r.choice([b"\x00", b"\x01", b"\x7f", b""])
            tags.append("redundant-zeros")
        elif kind < 0.38:
            data = rand_bytes(r, r.randrange(0, 6))
        if red and n >= mx:
            tags.append("non-minimal")
        cmds += ["dec_int %s %s %s" % (t, hx(data), zs(N)) for t in "MGS"]
        if r.random() < 0.1:
            badN = r.choice([0, -1, 9, 10, 100])
            cmds += ["enc_int %s %s %s" % (t, zs(n), zs(badN)) for t in "MG"]
            cmds += ["dec_int %s %s %s" % (t, hx(data), zs(badN)) for t in "MG"]
            tags.append("bad-width")
        if r.random() < 0.1:
            cmds += ["enc_int %s %s %s" % (t, zs(-r.randrange(1, 2 ** 70)), zs(N)) for t in "MG"]
            tags.append("negative")
        cases.append({"family": "int", "cmds": cmds, "meta": {"n": n, "N": N, "data": hx(data)}, "tags": tags})
    return cases


def gen_int_exhaustive(limit=70000):
    """thorough tier: every n < limit x 8 widths, every 2-octet input x 8 widths"""
    cases = []
    for N in range(1, 9):
        cmds = []
        for n in range(limit):
            cmds += ["enc_int M %s %s" % (zs(n), zs(N)), "dec_int M %s %s" % (hx(S.int_enc(n, N) + b"\x55"), zs(N))]
        cases.append({"family": "int", "cmds": cmds, "meta": {"exhaustive": "n<%d N=%d" % (limit, N)}, "tags": ["exhaustive"]})
        cmds = []
        for a in range(256):
            for b in range(256):
                cmds.append("dec_int M %s %s" % (hx(bytes([a, b])), zs(N)))
        cases.append({"family": "int", "cmds": cmds, "meta": {"exhaustive": "2 octets N=%d" % N}, "tags": ["exhaustive"]})
    return cases


# ------------------------------------------------------------------ Huffman (C12, C13)

def _sym_by_len():
    d = {}
    for b in range(256):
        d.setdefault(S.CODES[b][1], []).append(b)
    return d


SYM_BY_LEN = _sym_by_len()


def rand_huff_plain(r):
    k = r.random()
    n = r.choice([0, 1, 1, 2, 3, 5, 8, 8, 16, 40])
    if k < 0.2:
        return bytes(r.choice(SYM_BY_LEN[5]) for _ in range(n))        # shortest codes; '0' has code 00000
    if k < 0.3:
        return b"0" * n                                                  # all-zero bits
    if k < 0.5:
        return rand_bytes(r, n)                                          # long codes too
    if k < 0.6:
        ln = r.choice(sorted(SYM_BY_LEN))
        return bytes(r.choice(SYM_BY_LEN[ln]) for _ in range(n))
    return rand_bytes(r, n, "ascii")


def gen_huff(r, k):
    cases = []
    for _ in range(k):
        s = rand_huff_plain(r)
        tags = []
        cmds = ["henc %s %s" % (t, hx(s)) for t in "MGS"]
        bits = S.huff_bits(s)
        if len(bits) % 8 == 0 and s:
            tags.append("octet-aligned")
        if any(S.CODES[b][1] > 20 for b in s):
            tags.append("long-code")
        enc = S.huff_enc(s)
        kind = r.random()
        data = enc
        if kind < 0.12 and enc:
            i = r.randrange(len(enc) * 8)                                # flip one bit (often a padding bit)
            if r.random() < 0.6:
                i = len(enc) * 8 - 1 - r.randrange(min(8, len(enc) * 8))
            b = bytearray(enc)
            b[i // 8] ^= 0x80 >> (i % 8)
            data = bytes(b)
            tags.append("bit-flip")
        elif kind < 0.2:
            data = enc + b"\xff" * r.choice([1, 2, 4])
            tags.append("long-padding")
        elif kind < 0.27:
            eos = format(S.CODES[256][0], "030b")
            bb = bits + eos + S.huff_bits(rand_huff_plain(r))
            bb += "1" * ((8 - len(bb) % 8) % 8)
            data = S.bits_to_bytes(bb)
            tags.append("eos")
        elif kind < 0.34:
            bb = bits + "0" * ((8 - len(bits) % 8) % 8)
            data = S.bits_to_bytes(bb)
            tags.append("zero-padding")
        elif kind < 0.42:
            data = rand_bytes(r, r.randrange(0, 8))
            tags.append("random")
        elif kind < 0.47 and enc:
            data = enc[:-1]
            tags.append("cut")
        cmds += ["hdec %s %s" % (t, hx(data)) for t in "MGS"]
        cases.append({"family": "huff", "cmds": cmds, "meta": {"s": hx(s), "data": hx(data)}, "tags": tags})
    return cases


def gen_huff_long(r):
    """long strings at power-of-two lengths, one repeated symbol per code length and random mixtures:
    total bit lengths that are exact multiples of 8, of 8192, one off, ... (chunked or buffered
    encoders/decoders go wrong at such boundaries only)"""
    cases = []
    shapes = []
    for ln in (5, 6, 7, 8, 10, 13):
        if ln not in SYM_BY_LEN:
            continue
        sym = r.choice(SYM_BY_LEN[ln])
        for L in (1023, 1024, 1025, 2048, 4096):
            shapes.append(("repeat-%d-bit-code" % ln, bytes([sym]) * L))
    for L in (1024, 1638, 2048, 3000):
        shapes.append(("long-mixed", bytes(r.choice(SYM_BY_LEN[r.choice((5, 6, 7, 8))]) for _ in range(L))))
        shapes.append(("long-ascii", rand_bytes(r, L, "ascii")))
    for tag, s in shapes:
        enc = S.huff_enc(s)
        tags = ["long", tag] + (["octet-aligned"] if len(S.huff_bits(s)) % 8 == 0 else [])
        cmds = ["henc %s %s" % (t, hx(s)) for t in "MGS"] + ["hdec %s %s" % (t, hx(enc)) for t in "MGS"]
        cases.append({"family": "huff", "cmds": cmds, "meta": {"s": hx(s), "data": hx(enc)}, "tags": tags})
    return cases


def gen_huff_all(r, k):
    return gen_huff_long(r) + gen_huff(r, k)


def gen_huff_exhaustive():
    cases = []
    for a in range(256):
        cmds = ["henc M %s" % hx(bytes([a])), "hdec M %s" % hx(bytes([a]))]
        for b in range(256):
            cmds += ["henc M %s" % hx(bytes([a, b])), "hdec M %s" % hx(bytes([a, b]))]
        cases.append({"family": "huff", "cmds": cmds, "meta": {"exhaustive": "first octet %02x" % a}, "tags": ["exhaustive"]})
    return cases


# ------------------------------------------------------------------ table (C06, C14)

def gen_table(r, k):
    cases = []
    for ci in range(k):
        cmds, tags = [], []
        ids = {"M": "m%d" % ci, "G": "g%d" % ci}
        ctx = S.Ctx()
        ops = []                                    # ("add", n, v) | ("set", m) | ("get", i) | ("search", n, v)
        if r.random() < 0.7:
            m = r.choice([0, 32, 33, 34, 64, 66, 68, 69, 70, 100, 130, 200, 4096, 5000])
            ops.append(("set", m))
            ctx.resize(m)
        pool = []
        big = r.random() < 0.12
        if big:
            # many small entries (more than 61, so that negative-index wraparound of a
            # Python sequence would land inside the dynamic table), then boundary lookups
            ctx.resize(4096)
            ops[:] = [("set", 4096)]
            for i in range(r.choice([62, 63, 80, 113])):
                n, v = b"k", b"%03d" % i
                ctx.insert(n, v)
                ops.append(("add", n, v))
            tags.append("many-entries")
            for i in (0, -1, -61, -62, 61 + len(ctx.dyn), 62 + len(ctx.dyn), 63 + len(ctx.dyn), 1, 61, 62):
                ops.append(("get", i))
        large = (not big) and r.random() < 0.06
        if large:
            # a table larger than the default with more entries than the default could ever hold (4096 // 32 = 128):
            # bounds derived from the size at construction would bite here; then boundary lookups, a shrink, lookups
            m = r.choice([8192, 16384, 65536])
            ctx.resize(m)
            ops[:] = [("set", m)]
            for i in range(r.choice([129, 130, 160, 227])):
                n, v = r.choice([b"", b"k"]), b"%03d" % i
                ctx.insert(n, v)
                ops.append(("add", n, v))
            tags.append("more-than-128-entries")
            hi = 61 + len(ctx.dyn)
            for i in (62, hi - 1, hi, hi + 1, 61 + 128, 61 + 129, 61 + 130):
                ops.append(("get", i))
            ops.append(("search", b"k", b"000"))
            m2 = r.choice([4096, 4608, 36 * 129, 35 * 129 + 1])
            ctx.resize(m2)
            ops.append(("set", m2))
        long_history = (not big) and (not large) and r.random() < 0.04
        if long_history:
            tags.append("long-history")
        for _ in range(0 if big else r.choice([300, 700]) if long_history else r.randrange(3, 14)):
            kk = r.random()
            cur = sum(S.esize(n, v) for n, v in ctx.dyn)
            free = ctx.size - cur
            if kk < 0.5:
                # model-guided sizes: exactly free, free +- 1, exactly maxsize, maxsize + 1, small
                target = r.choice([free, free - 1, free + 1, ctx.size, ctx.size + 1, 34, 35, 40, 64])
                if target >= 32 + 1 and r.random() < 0.75:
                    ln = target - 32
                    nl = r.randrange(0, min(ln, 6) + 1)
                    n, v = rand_bytes(r, nl, "ascii"), rand_bytes(r, ln - nl, "ascii")
                else:
                    n, v, _ = rand_field(r, pool)
                if S.esize(n, v) == free:
                    tags.append("exact-fit")
                if S.esize(n, v) > ctx.size:
                    tags.append("too-big")
                before = len(ctx.dyn)
                ctx.insert(n, v)
                if len(ctx.dyn) <= before and S.esize(n, v) <= ctx.size:
                    tags.append("eviction")
                pool.append((n, v, False))
                ops.append(("add", n, v))
            elif kk < 0.65:
                last = S.esize(*ctx.dyn[0]) if ctx.dyn else 40
                m = r.choice([0, cur, cur - 1, cur + 1, last, last - 1, ctx.size, ctx.size + 50, 4096, 8192,
                              r.randrange(0, 300)])
                m = max(m, 0) if r.random() < 0.97 else -r.randrange(1, 50)
                if m < ctx.size and m < cur:
                    tags.append("shrink-evicts")
                ctx.resize(m)
                ops.append(("set", m))
            elif kk < 0.8:
                hi = 61 + len(ctx.dyn)
                i = r.choice([0, 1, 2, 61, 62, hi, hi + 1, hi + 2, r.randrange(0, hi + 3), -1])
                if 62 <= i <= hi:
                    tags.append("dynamic-index")
                ops.append(("get", i))
            else:
                if pool and r.random() < 0.7:
                    n, v, _ = r.choice(pool)
                    if r.random() < 0.3:
                        v = rand_value(r, n)
                else:
                    n, v = r.choice(S.STATIC) if r.random() < 0.6 else (rand_name(r), rand_value(r))
                    if r.random() < 0.3:
                        v = rand_value(r, n)
                ops.append(("search", n, v))
        # after the history: every index, so the whole address space is compared
        for i in range(0, 61 + len(ctx.dyn) + 3, 1 if len(ctx.dyn) < 4 else 7):
            ops.append(("get", i))
        for t in "MG":
            cmds.append("tnew %s %s" % (t, ids[t]))
            for o in ops:
                if o[0] == "add":
                    cmds.append("tadd %s %s %s %s" % (t, ids[t], hx(o[1]), hx(o[2])))
                elif o[0] == "set":
                    cmds.append("tset %s %s %s" % (t, ids[t], zs(o[1])))
                elif o[0] == "get":
                    cmds.append("tget %s %s %s" % (t, ids[t], zs(o[1])))
                    if t == "M":
                        cmds.append("tspec %s %s" % (ids[t], zs(o[1])))
                else:
                    cmds.append("tsearch %s %s %s %s" % (t, ids[t], hx(o[1]), hx(o[2])))
        cases.append({"family": "table", "cmds": cmds, "meta": {"ops": len(ops)}, "tags": sorted(set(tags))})
    return cases


# ------------------------------------------------------------------ decoder blocks (C02 C04 C05 C07 C08)

def write_block(r, ctx, nfields=None, list_budget=None):
    """a well-formed block for `ctx` (mutated to the context after the block): returns
    (bytes, fields [(never, name, value)], tags)"""
    out, fields, tags = b"", [], []
    # leading size updates
    if r.random() < 0.25:
        for _ in range(r.choice([1, 1, 2, 3])):
            m = r.choice([0, ctx.limit, max(ctx.limit - 1, 0), r.randrange(0, ctx.limit + 1),
                          sum(S.esize(*e) for e in ctx.dyn), 64, 100])
            m = min(m, ctx.limit)
            red = r.choice([0, 0, 1, 3])
            out += S.rep_size(m, red)
            ctx.resize(m)
            tags.append("size-update")
    pool = []
    for _ in range(nfields if nfields is not None else r.choice([0, 1, 2, 3, 5, 8])):
        k = r.random()
        addr = ctx.addressable()
        red = r.choice([0, 0, 0, 1, 2])
        if red:
            tags.append("non-minimal")
        if k < 0.35:
            # indexed, biased to dynamic entries, the oldest surviving one included
            if ctx.dyn and r.random() < 0.6:
                i = r.choice([62, 61 + len(ctx.dyn), r.randrange(62, 62 + len(ctx.dyn))])
                tags.append("dynamic-index")
            else:
                i = r.randrange(1, 62)
            n, v = S.lookup(i, ctx.dyn)
            out += S.rep_indexed(i, red)
            fields.append((False, n, v))
        else:
            mode = r.choice(["inc", "inc", "no", "never"])
            hn, hv = r.random() < 0.4, r.random() < 0.4
            if hn or hv:
                tags.append("huffman")
            if r.random() < 0.5:
                if ctx.dyn and r.random() < 0.5:
                    i = r.randrange(62, 62 + len(ctx.dyn))
                    tags.append("dynamic-index")
                else:
                    i = r.randrange(1, 62)
                n = S.lookup(i, ctx.dyn)[0]
                v = rand_value(r, n)
                if r.random() < 0.25:
                    v = S.lookup(i, ctx.dyn)[1]       # a literal that repeats the value stored under its name index
                    tags.append("literal-equals-entry")
                out += S.rep_literal(mode, n, v, i, hn, hv, red)
            else:
                n, v, _ = rand_field(r, pool)
                out += S.rep_literal(mode, n, v, 0, hn, hv, red)
            if len(n) > 126 or len(v) > 126:
                tags.append("multi-octet-length")
            fields.append((mode == "never", n, v))
            if mode == "inc":
                before = len(ctx.dyn)
                ctx.insert(n, v)
                if len(ctx.dyn) <= before:
                    tags.append("eviction")
            if mode == "never":
                tags.append("never-indexed")
    return out, fields, tags


def corrupt(r, blk, ctx_before):
    """one defect of a C05 class applied to a well-formed block; returns (bytes, tag)"""
    k = r.randrange(12)
    hi = 61 + len(ctx_before.dyn)
    if k == 0:
        return blk + b"\x80", "index-zero"
    if k == 1:
        return blk + S.rep_indexed(hi + 1 + r.choice([0, 1, 100])), "index-past-end"
    if k == 2:
        return blk + S.rep_literal("inc", b"", b"x", hi + 1), "name-index-past-end"
    if k == 3 and len(blk) > 1:
        return blk[:r.randrange(max(1, len(blk) - 3), len(blk))], "truncated"
    if k == 4:
        return blk + b"\x00\x05ab", "truncated-string"
    if k == 5:
        bad = r.choice([b"\xff", b"\xff\xff\xff\xff", b"\x00", b"\xfe"])     # >=8 padding bits / EOS / zero padding
        return blk + b"\x00" + bytes([0x80 | len(bad)]) + bad + b"\x00", "bad-huffman"
    if k == 6:
        return blk + b"\x82" + S.rep_size(r.choice([0, 10, 4096])), "size-update-after-field"
    if k == 7:
        return S.rep_size(ctx_before.limit + r.choice([1, 2, 1000])) + blk, "size-update-above-limit"
    if k == 8:
        return blk + b"\x40\x01\xff\x01a", "not-utf8-name"
    if k == 9:
        return blk + b"\x00\x01a\x02\xc3\x28", "not-utf8-value"
    if k == 10:
        return blk + b"\xff" + r.choice([b"\xff", b"\x80", b"\x81"]) * r.choice([10, 20, 21, 40, 2100, 3000]) + b"\x01", "long-integer"
    return blk + r.choice([b"\x7f", b"\x0f", b"\x1f"]) + b"\x80" * r.choice([5, 20, 21, 2500]) + r.choice([b"\x00\x00", b"\x01\x00"]), "redundant-name-index"


def gen_dec(r, k):
    cases = []
    for ci in range(k):
        d = "d%d" % ci
        cmds, tags = [], []
        L = r.choice([65536, 65536, 65536, 200, 100, 42, 0, 1000000])
        if L == 65536 and r.random() < 0.4:
            cmds.append("dnewd %s" % d)             # Decoder() with its documented defaults
        else:
            cmds.append("dnew %s %s" % (d, zs(L)))
        ctx = S.Ctx()
        if r.random() < 0.3:
            lim = r.choice([0, 64, 100, 4096, 8192, 100000])
            cmds.append("dsetmax %s %s" % (d, zs(lim)))
            ctx.limit = lim
            tags.append("limit-changed")
            if lim < ctx.size and r.random() < 0.6:
                # the peer complies: first block opens with an update within the new limit
                pass
        if r.random() < 0.15:
            m = r.choice([0, 50, 100, 4096, 5000])
            cmds.append("dsetsize %s %s" % (d, zs(m)))
            ctx.resize(m)
        alive = True
        long_history = r.random() < 0.03
        if long_history:
            tags.append("long-history")
        for _ in range(r.choice([40, 100]) if long_history else r.choice([1, 2, 3, 5])):
            raw = r.random() < 0.5
            before = ctx.copy()
            c2 = ctx.copy()
            need_update = c2.size > c2.limit
            blk, fields, t2 = write_block(r, c2)
            kk = r.random()
            if need_update and kk < 0.55:
                m = r.choice([c2.limit, max(c2.limit - 1, 0), 0])
                c3 = ctx.copy()
                c3.resize(m)
                b2, fields, t2 = write_block(r, c3)
                blk = S.rep_size(m) + b2
                c2 = c3
                t2.append("complying-update")
            elif need_update and kk < 0.85:
                # the peer does NOT comply: an update that leaves the size above the permitted
                # maximum (the current size again, one above the limit, ...), alone, repeated or
                # followed by fields -- must be refused
                m = r.choice([ctx.size, ctx.size, ctx.limit + 1, ctx.limit + 2, ctx.size - 1 if ctx.size - 1 > ctx.limit else ctx.size])
                c3 = ctx.copy()
                b2, fields, t2 = write_block(r, c3, nfields=r.choice([0, 0, 1, 2]))
                blk = S.rep_size(m) * r.choice([1, 1, 2]) + b2
                t2.append("non-complying-update")
                tags += t2
                cmds.append("ddec %s %d %s" % (d, 1 if raw else 0, hx(blk)))
                cmds.append("ddec %s 1 %s" % (d, hx(b"\x82")))
                cmds.append("ddec %s 1 %s" % (d, hx(b"")))
                break
            tags += t2
            size = sum(S.esize(n, v) for _, n, v in fields)
            if size == L:
                tags.append("list-size-at-limit")
            try:
                csize = sum(32 + len(n.decode("utf-8")) + len(v.decode("utf-8")) for _, n, v in fields)
            except UnicodeDecodeError:
                csize = size
            if fields and r.random() < (0.5 if csize != size else 0.1):
                # set the list limit to the exact size, one less, or one more
                L = size + r.choice([0, -1, 1])
                if csize != size and r.random() < 0.6:
                    L = csize + r.choice([0, 1])               # between the character count and the octet count
                    tags.append("list-limit-character-count")
                cmds.append("dsetlist %s %s" % (d, zs(L)))
                tags.append("list-limit-" + ("exact" if L == size else "below" if L < size else "above"))
            if r.random() < (0.02 if long_history else 0.3):
                blk, tg = corrupt(r, blk, before)
                tags.append("defect:" + tg)
                alive = False
            cmds.append("ddec %s %d %s" % (d, 1 if raw else 0, hx(blk)))
            if not alive or size > L or c2.size > c2.limit:
                # after a rejected block the shadow context is no longer known: end with probes
                cmds.append("ddec %s 1 %s" % (d, hx(b"\x82\xbe")))
                break
            ctx = c2
        if r.random() < 0.1:
            cmds.append("ddec %s %d %s" % (d, r.randrange(2), hx(rand_bytes(r, r.randrange(0, 12)))))
            tags.append("random-bytes")
        cases.append({"family": "dec", "cmds": cmds, "meta": {}, "tags": sorted(set(tags))})
    return cases


def gen_bigtable(r, k):
    """decoder with more than 61 dynamic entries, then index zero, the last entry, one past it"""
    cases = []
    for ci in range(k):
        d = "t%d" % ci
        n = r.choice([62, 63, 70, 100, 113])
        fill = b"".join(S.rep_literal("inc", b"k", b"%03d" % i) for i in range(n))
        cmds = ["dnew %s %s" % (d, zs(2 ** 30))]
        tg = []
        if r.random() < 0.4:
            # the peer raises the table above the default and fills it with more entries than the default could hold
            n = r.choice([129, 130, 200])
            fill = S.rep_size(16384) + b"".join(S.rep_literal("inc", b"k", b"%03d" % i) for i in range(n))
            cmds.append("dsetmax %s %s" % (d, zs(16384)))
            tg = ["more-than-128-entries"]
        cmds.append("ddec %s 1 %s" % (d, hx(fill)))
        for probe in (b"\x80", b"\x82\x80", S.rep_indexed(61 + n), S.rep_indexed(62 + n), S.rep_literal("no", b"", b"v", 0 if False else 62 + n),
                      S.rep_literal("inc", b"", b"v", 61 + n), b"\x40\x00\x00", b"\x00\x00\x00"):
            cmds.append("ddec %s %d %s" % (d, r.randrange(2), hx(probe)))
        cases.append({"family": "dec", "cmds": cmds, "meta": {}, "tags": ["many-entries", "defect:index-zero", "dynamic-index"] + tg})
    return cases


def gen_bomb(r, k):
    """C07: one table-filling entry referenced many times; limits at the exact size +-1"""
    cases = []
    for ci in range(k):
        d = "b%d" % ci
        v = rand_bytes(r, r.choice([100, 1000, 4000]), "ascii")
        e = 32 + 1 + len(v)
        reps = r.choice([1, 2, 10, 100, 1000])
        total = e * (1 + reps)
        L = total + r.choice([0, -1, 1, -e, 1000])
        blk = S.rep_literal("inc", b"x", v) + S.rep_indexed(62) * reps
        cmds = ["dnew %s %s" % (d, zs(max(L, 0))), "ddec %s 1 %s" % (d, hx(blk))]
        cases.append({"family": "dec", "cmds": cmds, "meta": {"total": total, "L": L},
                      "tags": ["bomb", "at-limit" if L == total else "below" if L < total else "above"]})
    for ci in range(max(2, k // 3)):
        # text mode, multi-byte UTF-8: the size that counts is the OCTET size; limits between the
        # character count and the octet count, and exactly at either
        d = "u%d" % ci
        nchars = r.choice([5, 40, 300])
        n, v = rand_bytes(r, r.choice([1, 3]), "utf8"), rand_bytes(r, nchars, "utf8")
        e = 32 + len(n) + len(v)
        ec = 32 + len(n.decode()) + len(v.decode())
        reps = r.choice([0, 1, 10, 200])
        total, totalc = e * (1 + reps), ec * (1 + reps)
        L = r.choice([total, total - 1, totalc, totalc + 1, (total + totalc) // 2, total + 1])
        h = r.random() < 0.5
        blk = S.rep_literal("inc" if reps else r.choice(["inc", "no", "never"]), n, v, hn=h, hv=h) + S.rep_indexed(62) * reps
        mode = r.choice([0, 0, 1])
        cmds = ["dnew %s %s" % (d, zs(max(L, 0))), "ddec %s %d %s" % (d, mode, hx(blk))]
        cases.append({"family": "dec", "cmds": cmds, "meta": {"octets": total, "chars": totalc, "L": L},
                      "tags": ["bomb", "multibyte-text", "text-mode" if mode == 0 else "raw-mode",
                               "at-limit" if L == total else "below" if L < total else "above"]})
    return cases


# ------------------------------------------------------------------ encoder and encoder->decoder (C01 C03 C09 C10 C15 C19)

def gen_pair(r, k, shared_pool=None):
    cases = []
    for ci in range(k):
        e, d = "e%d" % ci, "p%d" % ci
        cmds, tags = [], []
        blocks = []
        cmds.append("enew %s" % e)
        dlimit = r.choice([4096, 4096, 8192, 100000])
        cmds.append("dnew %s %s" % (d, zs(2 ** 40)))
        if dlimit != 4096:
            cmds.append("dsetmax %s %s" % (d, zs(dlimit)))
        pool = shared_pool if shared_pool is not None else []
        cur_size = 4096
        long_history = r.random() < 0.04      # drift that needs many steps (wrapping counters, accumulated accounting errors)
        if long_history:
            tags.append("long-history")
        for bi in range(r.choice([40, 150]) if long_history else r.choice([1, 2, 3, 4, 6])):
            # table-size changes between blocks
            sets = []
            if r.random() < 0.04:
                # a burst of settings between two blocks (more than any small backlog could hold), the smallest early
                lo = r.choice([0, 0, 32, 100])
                burst = [lo] + [r.choice([4096, min(8192, dlimit), r.randrange(lo + 1, 4096)])
                                for _ in range(r.choice([16, 17, 18, 33, 70]))]
                if r.random() < 0.5:
                    burst.insert(0, r.choice([4096, 200]))
                for v in burst:
                    v = min(v, dlimit)
                    sets.append(v)
                    cmds.append("eset %s %s" % (e, zs(v)))
                    cur_size = v
                tags += ["size-change", "size-burst"]
            elif dlimit > 8192 and r.random() < 0.1:
                v = r.choice([16384, 65536])
                sets.append(v)
                cmds.append("eset %s %s" % (e, zs(v)))
                cur_size = v
                tags += ["size-change", "table-above-default"]
            elif r.random() < 0.45:
                for _ in range(r.choice([1, 1, 2, 3])):
                    v = r.choice([0, 32, 34, 40, 64, 66, 68, 100, 200, 4096, dlimit, cur_size, cur_size,
                                  r.randrange(0, 400)])
                    v = min(v, dlimit)
                    sets.append(v)
                    cmds.append("eset %s %s" % (e, zs(v)))
                    cur_size = v
                tags.append("size-change")
                if len(sets) != len(set(sets)):
                    tags.append("same-size-twice")
            huff = r.random() < 0.5
            fields = []
            for _ in range(r.choice([0, 1, 2, 3, 4, 6, 10])):
                n, v, s = rand_field(r, pool)
                if shared_pool is not None and r.random() < 0.7:
                    # a world of instances talking about the same few fields
                    n = r.choice([b"x-a", b"x-b", b"x-c", b"x-d", b"cookie", b"etag"])
                    v = r.choice([b"1", b"2", b""])
                    s = r.random() < 0.3
                if r.random() < 0.03:
                    # (Huffman coding of a huge string is quadratic in the extracted model's
                    # unary-bit integers: huge strings travel raw, medium ones either way)
                    v = rand_bytes(r, r.choice([16383, 16384, 5000]), "ascii")
                    huff = False
                    tags.append("huge-value")
                elif r.random() < 0.03:
                    v = rand_bytes(r, r.choice([127, 128, 200, 700]), "ascii")
                    tags.append("long-value")
                fields.append((n, v, s))
                if s:
                    tags.append("sensitive")
                if v == b"" and r.random() < 0.5:
                    tags.append("empty-value")
            if cur_size > 8192 and r.random() < 0.6:
                # enough small distinct fields to hold more than 128 entries at once
                fields = [(r.choice([b"k", b"x-n"]), b"%03d" % (i + 1000 * bi), False) for i in range(r.choice([129, 140, 200]))]
                tags.append("more-than-128-entries")
            if bi > 0 and blocks and r.random() < 0.3:
                fields = list(blocks[r.randrange(len(blocks))]["fields"])       # repeat an earlier block
                tags.append("repeated-block")
            if any(len(v) > 700 or len(n) > 700 for n, v, _ in fields):
                huff = False        # the reference decoder of the Spec is slow on huge Huffman strings
            blocks.append({"sets": sets, "fields": fields, "huff": huff})
            cmds.append("eenc %s %d %s" % (e, 1 if huff else 0,
                                           " ".join("%s %s %d" % (hx(n), hx(v), 1 if s else 0) for n, v, s in fields)))
            cmds.append("pipe %s %s %d" % (e, d, 1))
        meta = {"blocks": [{"sets": b["sets"], "huff": b["huff"],
                            "fields": [[hx(n), hx(v), int(s)] for n, v, s in b["fields"]]} for b in blocks],
                "dlimit": dlimit}
        cases.append({"family": "pair", "cmds": cmds, "meta": meta, "tags": sorted(set(tags))})
    return cases


def gen_dec_all(r, k):
    kb = max(1, k // 25)
    return gen_dec(r, k - kb) + gen_bigtable(r, kb)


FAMILIES = {"int": gen_int, "huff": gen_huff_all, "table": gen_table, "dec": gen_dec_all, "bomb": gen_bomb, "pair": gen_pair}


# ------------------------------------------------------------------ API forms (C18)

def rand_text_bytes(r, n):
    """valid UTF-8 (so that the str form exists), mixing ASCII and multi-byte characters"""
    out = ""
    for _ in range(n):
        k = r.random()
        if k < 0.8:
            out += r.choice("abcdefghijklmnopqrstuvwxyz0123456789-:/.")
        elif k < 0.9:
            out += chr(r.randrange(0xa0, 0x7ff))
        elif k < 0.97:
            out += chr(r.choice([0x20ac, 0x4e2d, 0xfffd, 0x800]))
        else:
            out += chr(r.choice([0x1f600, 0x10000, 0x10ffff]))
    return out.encode("utf-8")


def gen_api(r, k):
    """the same canonical header sequence given to fresh encoders in different forms; a dict
    container; raw vs text decoding of the same blocks on twin decoders"""
    cases = []
    for ci in range(k):
        cmds, tags = [], []
        nenc = 3
        ids = ["a%d_%d" % (ci, j) for j in range(nenc)]
        for e in ids:
            cmds.append("enew %s" % e)
        groups = []
        pairs = []
        pool = []
        peer = "ap%d" % ci
        cmds.append("dnew %s %s" % (peer, zs(2 ** 40)))
        for bi in range(r.choice([1, 2, 3])):
            if r.random() < 0.3:
                v = r.choice([0, 64, 100, 4096])
                for e in ids:
                    cmds.append("eset %s %s" % (e, zs(v)))
            huff = r.random() < 0.5
            use_dict = r.random() < 0.3
            fields = []
            for _ in range(r.choice([1, 2, 3, 5, 8])):
                if r.random() < 0.5:
                    n, v, s = rand_field(r, pool)
                    try:
                        n.decode("utf-8"), v.decode("utf-8")
                    except UnicodeDecodeError:
                        n, v = rand_text_bytes(r, r.choice([1, 3, 8])), rand_text_bytes(r, r.choice([0, 2, 9]))
                else:
                    n, v, s = rand_text_bytes(r, r.choice([1, 3, 8])), rand_text_bytes(r, r.choice([0, 2, 9])), r.random() < 0.3
                    if r.random() < 0.3:
                        n = b":" + n
                if use_dict:
                    s = False
                    if any(f[0] == n for f in fields):
                        continue
                fields.append((n, v, s))
            if use_dict:
                tags.append("dict")
            line_ids = []
            for j, e in enumerate(ids):
                toks = []
                for n, v, s in fields:
                    nt = r.choice("bt")
                    vt = r.choice("bt")
                    if use_dict:
                        kind = "2"
                        nt = "b" if j == 0 else nt          # same canonical keys, different key types
                    elif j == 0:
                        kind, nt, vt = ("3T" if s else "2"), "b", "b"   # the reference form
                    else:
                        kind = r.choice(["3T", "N"]) if s else r.choice(["2", "3F", "3N", "H"])
                    if nt == "t" or vt == "t":
                        tags.append("text")
                    toks.append("%s,%s%s,%s%s" % (kind, nt, hx(n).replace("-", ""), vt, hx(v).replace("-", "")))
                    tags.append("form-" + kind)
                cont = "D" if use_dict else ("L" if j == 0 else r.choice("LI"))
                if cont == "I":
                    tags.append("iterator")
                cmds.append("eencf %s %d %s %s" % (e, 1 if huff else 0, cont, " ".join(toks)))
                line_ids.append(len(cmds) - 1)
                if j == 0:
                    # the peer decoder of the reference encoder consumes the block (text mode: the API fields are text)
                    canon = list(fields)
                    if use_dict:
                        canon = [f for f in fields if f[0].startswith(b":")] + [f for f in fields if not f[0].startswith(b":")]
                    cmds.append("pipe %s %s %d" % (e, peer, r.randrange(2)))
                    pairs.append({"enc": len(cmds) - 2, "pipe": len(cmds) - 1,
                                  "fields": [[hx(n), hx(v), int(s)] for n, v, s in canon]})
            groups.append(line_ids)
        # decoder modes: twin decoders, one raw one text, same blocks (valid text and not)
        d1, d2 = "ar%d" % ci, "at%d" % ci
        ctx = S.Ctx()
        twins = []
        blks = []
        limits = [10000]
        for _ in range(r.choice([1, 2, 3])):
            blk, fs, t2 = write_block(r, ctx)
            blks.append(blk)
            size = sum(S.esize(n, v) for _, n, v in fs)
            try:
                csize = sum(32 + len(n.decode("utf-8")) + len(v.decode("utf-8")) for _, n, v in fs)
            except UnicodeDecodeError:
                csize = size
            limits += [size, size - 1]
            if csize != size:
                # a limit the octet size exceeds and the character count does not: both modes must refuse
                limits += [csize, csize + 1, (csize + size) // 2] * 3
                tags.append("list-limit-character-count")
        L = max(0, r.choice(limits)) if r.random() < 0.5 else 10000
        cmds += ["dnew %s %s" % (d1, zs(L)), "dnew %s %s" % (d2, zs(L))]
        for blk in blks:
            cmds.append("ddec %s 1 %s" % (d1, hx(blk)))
            cmds.append("ddec %s 0 %s" % (d2, hx(blk)))
            twins.append((len(cmds) - 2, len(cmds) - 1))
        cases.append({"family": "api", "cmds": cmds, "meta": {"groups": groups, "twins": twins, "pairs": pairs},
                      "tags": sorted(set(tags))})
    return cases


# ------------------------------------------------------------------ input buffers (C17)

def gen_prov(r, k):
    cases = []
    for ci in range(k):
        d = "v%d" % ci
        cmds, tags = ["dnew %s 100000" % d], []
        ctx = S.Ctx()
        for _ in range(r.choice([1, 2, 3, 4])):
            bt = r.choice("BAM")
            tags.append({"B": "bytes", "A": "bytearray", "M": "memoryview"}[bt])
            raw = r.random() < 0.6
            c2 = ctx.copy()
            blk, fs, t2 = write_block(r, c2, nfields=r.choice([1, 2, 4, 8]))
            tags += [t for t in t2 if t in ("huffman", "dynamic-index", "eviction", "never-indexed")]
            bad = r.random() < 0.15
            if bad:
                blk, tg = corrupt(r, blk, ctx)
                tags.append("raises")
            cmds.append("ddecb %s %d %s %s" % (d, 1 if raw else 0, bt, hx(blk)))
            if bad:
                break
            ctx = c2
            # read back every stored entry through a later block (from an untouched buffer)
            if ctx.dyn:
                probe = b"".join(S.rep_indexed(62 + i) for i in range(len(ctx.dyn)))
                cmds.append("ddec %s 1 %s" % (d, hx(probe)))
        cases.append({"family": "prov", "cmds": cmds, "meta": {}, "tags": sorted(set(tags))})
    return cases


def gen_cost(r, k, base=6000):
    """C16: input shapes the property names, each at lengths about n, 2n, 4n"""
    shapes = {
        "cont-run-indexed": lambda n: b"\xff" + b"\xff" * n + b"\x01",
        "cont-run-zeros": lambda n: b"\xff" + b"\x80" * n + b"\x00",
        "cont-run-name-index": lambda n: b"\x7f" + b"\xff" * n + b"\x01\x00",
        "cont-run-string-length": lambda n: b"\x00\x7f" + b"\xff" * n + b"\x01",
        "cont-run-size-update": lambda n: b"\x3f" + b"\x80" * n + b"\x00",
        "long-plain-string": lambda n: S.rep_literal("no", b"x", b"v" * n),
        "long-huffman-string": lambda n: S.rep_literal("no", b"x", b"a" * n, hv=True),
        "long-indexed-literal": lambda n: S.rep_literal("inc", b"x", b"v" * n),
        "many-indexed": lambda n: b"\x82" * n,
        "many-tiny-literals": lambda n: S.rep_literal("no", b"a", b"") * (n // 4),
        "many-inserting-literals": lambda n: b"".join(S.rep_literal("inc", b"k%d" % (i % 50), b"v") for i in range(n // 7)),
        "many-size-updates": lambda n: b"\x20" * n + b"\x82",
        "many-never-indexed-huffman": lambda n: S.rep_literal("never", b"abc", b"def", hn=True, hv=True) * (n // 9),
    }
    cases = []
    names = sorted(shapes)
    for ci in range(k):
        nm = names[ci % len(names)]
        L = 2 ** 40 if (ci // len(names)) % 2 == 0 else 65536
        n = base + r.randrange(0, base // 8)
        if nm in ("long-plain-string", "long-huffman-string", "long-indexed-literal"):
            n *= 6        # one long string: cheap per octet, so larger sizes to get above timing noise
        cmds = ["cost %s 1 %s" % (zs(L), hx(shapes[nm](m))) for m in (n, 2 * n, 4 * n)]
        cases.append({"family": "cost", "cmds": cmds, "meta": {"shape": nm, "n": n, "L": L}, "tags": [nm]})
    return cases


FAMILIES["cost"] = gen_cost
FAMILIES["api"] = gen_api
FAMILIES["prov"] = gen_prov
