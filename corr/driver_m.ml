(* Driver for the frozen model (M) and the specification (S). *)
open BinNums
open Common

let show_enc (e : State.encoder) =
  show_table e.State.e_tab ^ " chg=" ^ String.concat "," (Stdlib.List.map string_of_z e.State.e_changes)
let show_dec (d : State.decoder) =
  show_table d.State.d_tab ^ " lst=" ^ string_of_z d.State.d_max_list ^ " alw=" ^ string_of_z d.State.d_max_allowed
let show_headers (hs : Decoder.header list) =
  String.concat "," (Stdlib.List.map (fun ((c, n), v) ->
    (match c with Decoder.HPlain -> "P" | Decoder.HNever -> "N") ^ ":" ^ hex_of_bytes n ^ ":" ^ hex_of_bytes v) hs)
let show_sfields (fs : SDecoder.sfield list) =
  String.concat "," (Stdlib.List.map (fun ((nv, n), v) ->
    (if nv then "N" else "P") ^ ":" ^ hex_of_bytes n ^ ":" ^ hex_of_bytes v) fs)
let serr_name e = match e with
  | SDecoder.BadIndex -> "InvalidTableIndex" | SDecoder.BadSize -> "InvalidTableSizeError"
  | SDecoder.Oversized -> "OversizedHeaderListError" | SDecoder.Malformed -> "HPACKDecodingError"
(* ---- objects ---- *)
let mtables : (string, State.table) Hashtbl.t = Hashtbl.create 16
let encs : (string, State.encoder) Hashtbl.t = Hashtbl.create 16
let decs : (string, State.decoder) Hashtbl.t = Hashtbl.create 16
let klim = z_of_int 20
let last : (string, Byte.byte list option) Hashtbl.t = Hashtbl.create 16

let tbl tgt = match tgt with "M" -> mtables | _ -> fail "table target"
let get h k = try Hashtbl.find h k with Not_found -> fail ("no object " ^ k)

let rec fields l = match l with
  | n :: v :: s :: r -> ((bytes_of_hex n, bytes_of_hex v), s = "1") :: fields r
  | [] -> [] | _ -> fail "fields"

let ddec id raw data =
  let d0 = get decs id in
  let (r, s) = Decoder.dstep d0 (Decoder.DDecode (data, raw)) in
  Hashtbl.replace decs id s;
  (* second half of the line: the SPECIFICATION decoder on the same context *)
  let sp = (match SDecoder.decode klim (Rel.ctx_of d0) data (not raw) with
            | SDecoder.SOk (fs, c) ->
                "ok:" ^ show_sfields fs ^ " T max=" ^ string_of_z c.SDecoder.size ^ " ent=" ^
                String.concat "," (Stdlib.List.map (fun (n, v) -> hex_of_bytes n ^ ":" ^ hex_of_bytes v) c.SDecoder.dyn)
            | SDecoder.SErr e -> "err:" ^ serr_name e) in
  out_str show_headers r ^ " " ^ show_dec s ^ " | S " ^ sp

let handle (w : string list) : string =
  match w with
  | ["enc_int"; t; n; p] ->
      let n = z_of_string n and p = z_of_string p in
      (match t with
       | "M" -> out_str hex_of_bytes (Int.encode_integer n p)
       | "S" -> "ok:" ^ zlist_as_bytes (IntRep.int_enc p n)
       | _ -> fail "target")
  | ["dec_int"; t; d; p] ->
      let d = bytes_of_hex d and p = z_of_string p in
      let sh (n, k) = string_of_z n ^ "," ^ string_of_z k in
      (match t with
       | "M" -> out_str sh (Int.decode_integer d p)
       | "S" -> (match IntRep.int_dec p (Stdlib.List.map Py.bz d) with
                 | Some (n, k) -> "ok:" ^ sh (n, k) | None -> "none")
       | _ -> fail "target")
  | ["henc"; t; d] ->
      let d = bytes_of_hex d in
      (match t with
       | "M" -> out_str hex_of_bytes (Encoder.huffman_encode_m d)
       | "S" -> "ok:" ^ zlist_as_bytes (HuffmanCode.huff_enc d)
       | _ -> fail "target")
  | ["hdec"; t; d] ->
      let d = bytes_of_hex d in
      (match t with
       | "M" -> out_str hex_of_bytes (Decoder.decode_huffman_m d)
       | "S" -> (match HuffmanCode.huff_dec d with Some s -> "ok:" ^ hex_of_bytes s | None -> "err:HPACKDecodingError")
       | _ -> fail "target")
  | ["tnew"; t; id] -> Hashtbl.replace (tbl t) id Decoder.coq_HeaderTable_init; "ok " ^ show_table Decoder.coq_HeaderTable_init
  | ["tadd"; t; id; n; v] ->
      let h = tbl t in let n = bytes_of_hex n and v = bytes_of_hex v in
      let (r, s) = Table.coq_HeaderTable_add (get h id) n v in
      Hashtbl.replace h id s; out_str (fun () -> "") r ^ " " ^ show_table s
  | ["tset"; t; id; m] ->
      let h = tbl t in let m = z_of_string m in
      let (r, s) = Table.coq_HeaderTable_set_maxsize (get h id) m in
      Hashtbl.replace h id s; out_str (fun () -> "") r ^ " " ^ show_table s
  | ["tget"; t; id; i] ->
      let h = tbl t in let i = z_of_string i in
      let r = Table.coq_HeaderTable_get_by_index (get h id) i in
      out_str (fun (n, v) -> hex_of_bytes n ^ ":" ^ hex_of_bytes v) r
  | ["tsearch"; t; id; n; v] ->
      let h = tbl t in let n = bytes_of_hex n and v = bytes_of_hex v in
      let r = Table.coq_HeaderTable_search (get h id) n v in
      out_str show_search r
  | ["tspec"; id; i] ->     (* specification lookup on the model table's entries *)
      (match DynTable.lookup (z_of_string i) (get mtables id).State.entries with
       | Some (n, v) -> "ok:" ^ hex_of_bytes n ^ ":" ^ hex_of_bytes v | None -> "err:InvalidTableIndex")
  | ["enew"; id] -> Hashtbl.replace encs id Encoder.coq_Encoder_init; "ok " ^ show_enc Encoder.coq_Encoder_init
  | ["eset"; id; v] ->
      let (r, s) = Encoder.estep (get encs id) (Encoder.ESetSize (z_of_string v)) in
      Hashtbl.replace encs id s; out_str (fun _ -> "") r ^ " " ^ show_enc s
  | "eenc" :: id :: huff :: rest ->
      let (r, s) = Encoder.estep (get encs id) (Encoder.EEncode (fields rest, huff = "1")) in
      Hashtbl.replace encs id s;
      Hashtbl.replace last id (match r with Py.Ok b -> Some b | Py.Err _ -> None);
      out_str hex_of_bytes r ^ " " ^ show_enc s
  | ["dnewd"; id] ->
      let d = Decoder.coq_Decoder_init Data.coq_DEFAULT_MAX_HEADER_LIST_SIZE in Hashtbl.replace decs id d; "ok " ^ show_dec d
  | ["dnew"; id; l] -> let d = Decoder.coq_Decoder_init (z_of_string l) in Hashtbl.replace decs id d; "ok " ^ show_dec d
  | ["dsetmax"; id; v] | ["dsetsize"; id; v] | ["dsetlist"; id; v] ->
      let v = z_of_string v in
      let op = (match Stdlib.List.hd w with "dsetmax" -> Decoder.DSetMaxAllowed v | "dsetsize" -> Decoder.DSetTableSize v
                                          | _ -> Decoder.DSetMaxList v) in
      let (r, s) = Decoder.dstep (get decs id) op in
      Hashtbl.replace decs id s; out_str (fun _ -> "") r ^ " " ^ show_dec s
  | ["ddec"; id; raw; data] -> ddec id (raw = "1") (bytes_of_hex data)
  | ["ddecb"; id; raw; _; data] -> ddec id (raw = "1") (bytes_of_hex data)
  | "eencf" :: id :: huff :: cont :: forms ->
      let pv tok = let b = bytes_of_hex (String.sub tok 1 (String.length tok - 1)) in
                   if tok.[0] = 't' then Api.PText b else Api.PBytes b in
      let form tok = (match String.split_on_char ',' tok with
        | [k; n; v] -> let n = pv n and v = pv v in
            (match k with
             | "2" -> Api.F2 (n, v) | "3T" -> Api.F3 (n, v, Some true) | "3F" -> Api.F3 (n, v, Some false)
             | "3N" -> Api.F3 (n, v, None) | "H" -> Api.FHeaderTuple (n, v) | "N" -> Api.FNever (n, v)
             | _ -> fail "form kind")
        | _ -> fail "form") in
      let fs = Stdlib.List.map form forms in
      let c = (match cont with
        | "L" -> Api.CList fs | "I" -> Api.CIter fs
        | "D" -> Api.CDict (Stdlib.List.map (fun f -> match f with Api.F2 (n, v) -> (n, v) | _ -> fail "dict form") fs)
        | _ -> fail "container") in
      let (r, s) = Api.coq_Encoder_encode_api (get encs id) c (huff = "1") in
      Hashtbl.replace encs id s;
      Hashtbl.replace last id (match r with Py.Ok b -> Some b | Py.Err _ -> None);
      out_str hex_of_bytes r ^ " " ^ show_enc s
  | ["cost"; l; raw; data] ->
      (* model only: the reference decoder of the Spec is too slow for the long strings of this family *)
      let (r, s) = Decoder.dstep (Decoder.coq_Decoder_init (z_of_string l)) (Decoder.DDecode (bytes_of_hex data, raw = "1")) in
      out_str show_headers r ^ " " ^ show_dec s
  | ["snapshot"] -> "ok:model"
  | ["pipe"; eid; did; raw] ->
      (match (try Hashtbl.find last eid with Not_found -> None) with
       | None -> "skip " ^ show_dec (get decs did)
       | Some b -> ddec did (raw = "1") b)
  | _ -> fail ("bad command: " ^ String.concat " " w)

let () =
  try
    while true do
      let line = input_line stdin in
      if line <> "" && line.[0] <> '#' then begin
        let w = Stdlib.List.filter (fun s -> s <> "") (String.split_on_char ' ' line) in
        print_endline (handle w)
      end
    done
  with End_of_file -> ()
