#!/venv/bin/python
"""The implementation side of the correspondence protocol.

Reads commands (the same lines corr/driver_m.ml reads) from a file and runs them on the
REAL hpack objects imported from $PYTHONPATH (=/repo/src), printing one canonical result
line per command: result or exception class, plus the full observable state of the object.

usage: impl_runner.py <commands-file> <out-file>
"""
import signal
import sys

import hpack
import hpack.exceptions
import hpack.table
from hpack import Decoder, Encoder, HeaderTuple, NeverIndexedHeaderTuple
from hpack.exceptions import (HPACKDecodingError, InvalidTableIndexError, InvalidTableSizeError,
                              OversizedHeaderListError)
from hpack.hpack import decode_integer, encode_integer
from hpack.huffman import HuffmanEncoder
from hpack.huffman_constants import REQUEST_CODES, REQUEST_CODES_LENGTH
from hpack.huffman_table import decode_huffman
from hpack.table import HeaderTable

PER_CALL_TIMEOUT = 20.0


class Timeout(BaseException):
    pass


def _alarm(*_):
    raise Timeout()


signal.signal(signal.SIGALRM, _alarm)


TYPES = []     # type anomalies seen while printing the current line (C17: retained/returned objects must be bytes/str)


def hx(b, want=bytes):
    if isinstance(b, str):
        if want is not str:
            TYPES.append("str")
        b = b.encode("utf-8", "surrogatepass")
    elif type(b) is not want:
        TYPES.append(type(b).__name__)
    b = bytes(b)
    return b.hex() if b else "-"


def unhex(s):
    return b"" if s == "-" else bytes.fromhex(s)


def zs(n):
    if type(n) is not int:
        return "!" + type(n).__name__ + ":" + repr(n)
    return ("-" if n < 0 else "") + format(abs(n), "x")


def zp(s):
    return -int(s[1:], 16) if s.startswith("-") else int(s, 16)


def exn_name(e):
    """the most specific documented class; every documented class must still be a
    HPACKDecodingError (and a HPACKError): an application catches the family by its base"""
    fam = "" if isinstance(e, HPACKDecodingError) and isinstance(e, hpack.exceptions.HPACKError) \
        else "!outside-the-HPACKDecodingError-family"
    if isinstance(e, InvalidTableIndexError):
        return "InvalidTableIndex" + fam
    if isinstance(e, OversizedHeaderListError):
        return "OversizedHeaderListError" + fam
    if isinstance(e, InvalidTableSizeError):
        return "InvalidTableSizeError" + fam
    if isinstance(e, HPACKDecodingError):
        return "HPACKDecodingError"
    return type(e).__name__


def call(f, show):
    signal.setitimer(signal.ITIMER_REAL, PER_CALL_TIMEOUT)
    try:
        r = f()
        signal.setitimer(signal.ITIMER_REAL, 0)
        return "ok:" + show(r)
    except Timeout:
        return "err:TIMEOUT"
    except RecursionError:
        signal.setitimer(signal.ITIMER_REAL, 0)
        return "err:RecursionError"
    except Exception as e:  # noqa: BLE001
        signal.setitimer(signal.ITIMER_REAL, 0)
        return "err:" + exn_name(e)


def show_table(t):
    return "T max=%s cur=%s rz=%s ent=%s" % (
        zs(t._maxsize), zs(t._current_size),
        {True: "1", False: "0"}.get(t.resized, "!" + repr(t.resized)),
        ",".join(hx(n) + ":" + hx(v) for n, v in t.dynamic_entries))


def show_enc(e):
    return show_table(e.header_table) + " chg=" + ",".join(zs(x) for x in e.table_size_changes)


def show_dec(d):
    return show_table(d.header_table) + " lst=" + zs(d.max_header_list_size) + " alw=" + zs(d.max_allowed_table_size)


def show_headers(hs):
    out = []
    for h in hs:
        c = "N" if type(h) is NeverIndexedHeaderTuple else "P" if type(h) is HeaderTuple else "?" + type(h).__name__
        if len(h) != 2:
            c += "!len%d" % len(h)
        out.append(c + ":" + hx(h[0], SHOW_AS[0]) + ":" + hx(h[1], SHOW_AS[0]))
    return ",".join(out)


SHOW_AS = [bytes]    # the type the fields of the current decode call must have (bytes in raw mode, str in text mode)


def show_search(r):
    if r is None:
        return "none"
    i, n, v = r
    return zs(i) + "," + hx(n) + "," + ("none" if v is None else hx(v))


def main():
    import logging
    import os
    if os.environ.get("HV_LOG") == "DEBUG":
        # logging at DEBUG with a handler that formats every record (C20: must not change behaviour)
        class Sink(logging.Handler):
            def emit(self, record):
                try:
                    self.format(record)
                except Exception:  # noqa: BLE001
                    pass
        lg = logging.getLogger("hpack")
        lg.setLevel(logging.DEBUG)
        lg.addHandler(Sink())
    tables, encs, decs, last = {}, {}, {}, {}
    coder = HuffmanEncoder(REQUEST_CODES, REQUEST_CODES_LENGTH)
    out = open(sys.argv[2], "w")
    for line in open(sys.argv[1]):
        w = line.split()
        if not w or w[0].startswith("#"):
            continue
        c = w[0]
        if c == "enc_int":
            r = call(lambda: encode_integer(zp(w[2]), zp(w[3])), hx_ba)
        elif c == "dec_int":
            r = call(lambda: decode_integer(unhex(w[2]), zp(w[3])), lambda t: zs(t[0]) + "," + zs(t[1]))
        elif c == "henc":
            r = call(lambda: coder.encode(unhex(w[2])), hx)
        elif c == "hdec":
            r = call(lambda: decode_huffman(unhex(w[2])), hx)
        elif c == "tnew":
            tables[w[2]] = HeaderTable()
            r = "ok " + show_table(tables[w[2]])
        elif c == "tadd":
            t = tables[w[2]]
            r = call(lambda: t.add(unhex(w[3]), unhex(w[4])), lambda _: "") + " " + show_table(t)
        elif c == "tset":
            t = tables[w[2]]

            def f():
                t.maxsize = zp(w[3])
            r = call(f, lambda _: "") + " " + show_table(t)
        elif c == "tget" or c == "tspec":
            t = tables[w[2] if c == "tget" else w[1]]
            i = zp(w[3] if c == "tget" else w[2])
            r = call(lambda: t.get_by_index(i), lambda e: hx(e[0]) + ":" + hx(e[1]))
        elif c == "tsearch":
            t = tables[w[2]]
            r = call(lambda: t.search(unhex(w[3]), unhex(w[4])), show_search)
        elif c == "enew":
            encs[w[1]] = Encoder()
            r = "ok " + show_enc(encs[w[1]])
        elif c == "eset":
            e = encs[w[1]]

            def f():
                e.header_table_size = zp(w[2])
            r = call(f, lambda _: "") + " " + show_enc(e)
        elif c == "eenc":
            e = encs[w[1]]
            hs = [(unhex(w[i]), unhex(w[i + 1]), w[i + 2] == "1") for i in range(3, len(w), 3)]

            def f():
                b = e.encode(hs, huffman=(w[2] == "1"))
                last[w[1]] = b
                return b
            last[w[1]] = None
            r = call(f, hx) + " " + show_enc(e)
        elif c == "dnew":
            decs[w[1]] = Decoder(max_header_list_size=zp(w[2]))
            r = "ok " + show_dec(decs[w[1]])
        elif c == "dnewd":
            decs[w[1]] = Decoder()          # every default
            r = "ok " + show_dec(decs[w[1]])
        elif c in ("dsetmax", "dsetsize", "dsetlist"):
            d = decs[w[1]]

            def f():
                if c == "dsetmax":
                    d.max_allowed_table_size = zp(w[2])
                elif c == "dsetsize":
                    d.header_table_size = zp(w[2])
                else:
                    d.max_header_list_size = zp(w[2])
            r = call(f, lambda _: "") + " " + show_dec(d)
        elif c == "ddec":
            d = decs[w[1]]
            SHOW_AS[0] = bytes if w[2] == "1" else str
            r = call(lambda: d.decode(unhex(w[3]), raw=(w[2] == "1")), show_headers) + " " + show_dec(d)
        elif c == "ddecb":
            # ddecb <id> <raw> <buftype: B bytes | A bytearray | M memoryview of a bytearray> <hex>
            # decode from a caller-owned buffer, then check that nothing of it is retained
            # (reference count back to what it was, a bytearray can be resized again) and
            # overwrite it; later commands show whether the decoder still depended on it.
            d = decs[w[1]]
            base = unhex(w[4]) if w[3] == "B" else bytearray(unhex(w[4]))
            arg = memoryview(base) if w[3] == "M" else base
            SHOW_AS[0] = bytes if w[2] == "1" else str
            import gc
            rc0 = sys.getrefcount(base)
            r = call(lambda: d.decode(arg, raw=(w[2] == "1")), show_headers) + " " + show_dec(d)
            gc.collect()
            rc1 = sys.getrefcount(base)       # (for M the caller's own memoryview is still alive, as at rc0)
            resize = "n/a"
            if w[3] == "M":
                arg.release()
            if w[3] in ("A", "M"):
                try:
                    base.extend(b"zz")
                    del base[-2:]
                    resize = "ok"
                except BufferError:
                    resize = "BufferError"
                for k in range(len(base)):
                    base[k] = 0x5a
            r += " | RC %d %s" % (rc1 - rc0, resize)
        elif c == "eencf":
            # eencf <id> <huff> <container L|I|D> <form>...   form = kind,<b|t>namehex,<b|t>valuehex
            e = encs[w[1]]

            def pv(tok):
                raw = unhex(tok[1:])
                return raw.decode("utf-8") if tok[0] == "t" else raw
            hs = []
            for tok in w[4:]:
                kind, n, v = tok.split(",")
                n, v = pv(n), pv(v)
                if kind == "2":
                    hs.append((n, v))
                elif kind == "3T":
                    hs.append((n, v, True))
                elif kind == "3F":
                    hs.append((n, v, False))
                elif kind == "3N":
                    hs.append((n, v, None))
                elif kind == "H":
                    hs.append(HeaderTuple(n, v))
                elif kind == "N":
                    hs.append(NeverIndexedHeaderTuple(n, v))
            if w[3] == "D":
                arg = dict((h[0], h[1]) for h in hs)
            elif w[3] == "I":
                arg = (h for h in hs)
            else:
                arg = hs

            def f():
                b = e.encode(arg, huffman=(w[2] == "1"))
                last[w[1]] = b
                return b
            last[w[1]] = None
            r = call(f, hx) + " " + show_enc(e)
        elif c == "cost":
            # cost <max_list> <raw> <hex>: decode on a FRESH Decoder under sys.settrace, three times;
            # report executed line events inside hpack, the largest `shift` seen in decode_integer,
            # the types of the buffer argument of every helper, and the best CPU time
            data = unhex(w[3])
            SHOW_AS[0] = bytes if w[2] == "1" else str
            r = None
            best = None
            stats = {"lines": 0, "maxshift": 0, "argtypes": set()}

            def tracer(frame, event, arg):
                co = frame.f_code
                if "hpack" not in co.co_filename:
                    return None
                if event == "call":
                    if co.co_name in ("decode_integer", "_decode_literal", "_decode_indexed", "_update_encoding_context",
                                      "decode_huffman") and co.co_argcount >= 1:
                        names = co.co_varnames[:co.co_argcount]
                        arg0 = frame.f_locals.get(names[1] if names[0] == "self" and len(names) > 1 else names[0])
                        stats["argtypes"].add(co.co_name + ":" + type(arg0).__name__)
                        if isinstance(arg0, (bytes, bytearray)):
                            stats["copied"] = stats.get("copied", 0) + len(arg0)
                    return tracer
                if event == "line":
                    stats["lines"] += 1
                    if co.co_name == "decode_integer":
                        sh = frame.f_locals.get("shift")
                        if isinstance(sh, int) and sh > stats["maxshift"]:
                            stats["maxshift"] = sh
                return tracer
            import time
            for rep in range(5):
                d = Decoder(max_header_list_size=zp(w[1]))
                t0 = time.process_time()
                rr = call(lambda: d.decode(data, raw=(w[2] == "1")), show_headers) + " " + show_dec(d)
                dt = time.process_time() - t0
                best = dt if best is None or dt < best else best
                if r is None:
                    r = rr
            d = Decoder(max_header_list_size=zp(w[1]))
            sys.settrace(tracer)
            try:
                call(lambda: d.decode(data, raw=(w[2] == "1")), show_headers)
            finally:
                sys.settrace(None)
            r += " | COST lines=%d maxshift=%d argtypes=%s copied=%d t=%.6f" % (
                stats["lines"], stats["maxshift"], "+".join(sorted(stats["argtypes"])) or "-", stats.get("copied", 0), best)
        elif c == "snapshot":
            r = "ok:" + snapshot()
        elif c == "pipe":
            # decode, on decoder w[2], the last block produced by encoder w[1]
            d = decs[w[2]]
            blk = last.get(w[1])
            if blk is None:
                r = "skip " + show_dec(d)
            else:
                SHOW_AS[0] = bytes if w[3] == "1" else str
                r = call(lambda: d.decode(blk, raw=(w[3] == "1")), show_headers) + " " + show_dec(d)
        else:
            r = "err:BADCOMMAND " + line.strip()
        if TYPES:
            r += " | TY " + ",".join(sorted(set(TYPES)))
            del TYPES[:]
        out.write(r + "\n")
    out.close()


def snapshot():
    """digest of every object instances could share"""
    import hashlib
    import hpack.huffman_constants as hc
    import hpack.huffman_table as ht
    import hpack.hpack as hp
    h = hashlib.sha256()
    for o in (HeaderTable.STATIC_TABLE, HeaderTable.STATIC_TABLE_LENGTH, HeaderTable.DEFAULT_SIZE,
              sorted((k, v[0], sorted(v[1].items())) for k, v in HeaderTable.STATIC_TABLE_MAPPING.items()),
              hc.REQUEST_CODES, hc.REQUEST_CODES_LENGTH, ht.HUFFMAN_TABLE, hp._PREFIX_BIT_MAX_NUMBERS,
              hp.INDEX_NONE, hp.INDEX_NEVER, hp.INDEX_INCREMENTAL, hp.DEFAULT_MAX_HEADER_LIST_SIZE,
              sorted(k for k in vars(hp) if not k.startswith("__")), sorted(k for k in vars(HeaderTable) if not k.startswith("__")),
              sorted(k for k in vars(ht) if not k.startswith("__")), sorted(k for k in vars(hpack.table) if not k.startswith("__"))):
        h.update(repr(o).encode())
    return h.hexdigest()[:24]


def hx_ba(b):
    # encode_integer returns a bytearray: canonical form is the bytes
    return hx(bytes(b)) if type(b) is bytearray else hx(b)


if __name__ == "__main__":
    main()
