#!/venv/bin/python
"""The implementation side of the correspondence protocol.

Reads commands (the same lines corr/driver_m.ml reads) from a file and runs them on the
REAL hpack objects imported from $PYTHONPATH (=/repo/src), printing one canonical result
line per command: result or exception class, plus the full observable state of the object.

usage: impl_runner.py <commands-file> <out-file>
"""
import signal
import sys

import hpack
from hpack import Decoder, Encoder, HeaderTuple, NeverIndexedHeaderTuple
from hpack.exceptions import (HPACKDecodingError, InvalidTableIndexError, InvalidTableSizeError,
                              OversizedHeaderListError)
from hpack.hpack import decode_integer, encode_integer
from hpack.huffman import HuffmanEncoder
from hpack.huffman_constants import REQUEST_CODES, REQUEST_CODES_LENGTH
from hpack.huffman_table import decode_huffman
from hpack.table import HeaderTable

PER_CALL_TIMEOUT = 20.0


class Timeout(BaseException):
    pass


def _alarm(*_):
    raise Timeout()


signal.signal(signal.SIGALRM, _alarm)


def hx(b):
    if isinstance(b, str):
        b = b.encode("utf-8", "surrogatepass")
    t = "" if type(b) is bytes else "!" + type(b).__name__
    b = bytes(b)
    return (b.hex() if b else "-") + t


def unhex(s):
    return b"" if s == "-" else bytes.fromhex(s)


def zs(n):
    if type(n) is not int:
        return "!" + type(n).__name__ + ":" + repr(n)
    return ("-" if n < 0 else "") + format(abs(n), "x")


def zp(s):
    return -int(s[1:], 16) if s.startswith("-") else int(s, 16)


def exn_name(e):
    if isinstance(e, InvalidTableIndexError):
        return "InvalidTableIndex"
    if isinstance(e, OversizedHeaderListError):
        return "OversizedHeaderListError"
    if isinstance(e, InvalidTableSizeError):
        return "InvalidTableSizeError"
    if isinstance(e, HPACKDecodingError):
        return "HPACKDecodingError"
    return type(e).__name__


def call(f, show):
    signal.setitimer(signal.ITIMER_REAL, PER_CALL_TIMEOUT)
    try:
        r = f()
        signal.setitimer(signal.ITIMER_REAL, 0)
        return "ok:" + show(r)
    except Timeout:
        return "err:TIMEOUT"
    except RecursionError:
        signal.setitimer(signal.ITIMER_REAL, 0)
        return "err:RecursionError"
    except Exception as e:  # noqa: BLE001
        signal.setitimer(signal.ITIMER_REAL, 0)
        return "err:" + exn_name(e)


def show_table(t):
    return "T max=%s cur=%s rz=%s ent=%s" % (
        zs(t._maxsize), zs(t._current_size),
        {True: "1", False: "0"}.get(t.resized, "!" + repr(t.resized)),
        ",".join(hx(n) + ":" + hx(v) for n, v in t.dynamic_entries))


def show_enc(e):
    return show_table(e.header_table) + " chg=" + ",".join(zs(x) for x in e.table_size_changes)


def show_dec(d):
    return show_table(d.header_table) + " lst=" + zs(d.max_header_list_size) + " alw=" + zs(d.max_allowed_table_size)


def show_headers(hs):
    out = []
    for h in hs:
        c = "N" if type(h) is NeverIndexedHeaderTuple else "P" if type(h) is HeaderTuple else "?" + type(h).__name__
        if len(h) != 2:
            c += "!len%d" % len(h)
        out.append(c + ":" + hx(h[0]) + ":" + hx(h[1]))
    return ",".join(out)


def show_search(r):
    if r is None:
        return "none"
    i, n, v = r
    return zs(i) + "," + hx(n) + "," + ("none" if v is None else hx(v))


def main():
    tables, encs, decs, last = {}, {}, {}, {}
    coder = HuffmanEncoder(REQUEST_CODES, REQUEST_CODES_LENGTH)
    out = open(sys.argv[2], "w")
    for line in open(sys.argv[1]):
        w = line.split()
        if not w or w[0].startswith("#"):
            continue
        c = w[0]
        if c == "enc_int":
            r = call(lambda: encode_integer(zp(w[2]), zp(w[3])), hx_ba)
        elif c == "dec_int":
            r = call(lambda: decode_integer(unhex(w[2]), zp(w[3])), lambda t: zs(t[0]) + "," + zs(t[1]))
        elif c == "henc":
            r = call(lambda: coder.encode(unhex(w[2])), hx)
        elif c == "hdec":
            r = call(lambda: decode_huffman(unhex(w[2])), hx)
        elif c == "tnew":
            tables[w[2]] = HeaderTable()
            r = "ok " + show_table(tables[w[2]])
        elif c == "tadd":
            t = tables[w[2]]
            r = call(lambda: t.add(unhex(w[3]), unhex(w[4])), lambda _: "") + " " + show_table(t)
        elif c == "tset":
            t = tables[w[2]]

            def f():
                t.maxsize = zp(w[3])
            r = call(f, lambda _: "") + " " + show_table(t)
        elif c == "tget" or c == "tspec":
            t = tables[w[2] if c == "tget" else w[1]]
            i = zp(w[3] if c == "tget" else w[2])
            r = call(lambda: t.get_by_index(i), lambda e: hx(e[0]) + ":" + hx(e[1]))
        elif c == "tsearch":
            t = tables[w[2]]
            r = call(lambda: t.search(unhex(w[3]), unhex(w[4])), show_search)
        elif c == "enew":
            encs[w[1]] = Encoder()
            r = "ok " + show_enc(encs[w[1]])
        elif c == "eset":
            e = encs[w[1]]

            def f():
                e.header_table_size = zp(w[2])
            r = call(f, lambda _: "") + " " + show_enc(e)
        elif c == "eenc":
            e = encs[w[1]]
            hs = [(unhex(w[i]), unhex(w[i + 1]), w[i + 2] == "1") for i in range(3, len(w), 3)]

            def f():
                b = e.encode(hs, huffman=(w[2] == "1"))
                last[w[1]] = b
                return b
            last[w[1]] = None
            r = call(f, hx) + " " + show_enc(e)
        elif c == "dnew":
            decs[w[1]] = Decoder(max_header_list_size=zp(w[2]))
            r = "ok " + show_dec(decs[w[1]])
        elif c in ("dsetmax", "dsetsize", "dsetlist"):
            d = decs[w[1]]

            def f():
                if c == "dsetmax":
                    d.max_allowed_table_size = zp(w[2])
                elif c == "dsetsize":
                    d.header_table_size = zp(w[2])
                else:
                    d.max_header_list_size = zp(w[2])
            r = call(f, lambda _: "") + " " + show_dec(d)
        elif c == "ddec":
            d = decs[w[1]]
            r = call(lambda: d.decode(unhex(w[3]), raw=(w[2] == "1")), show_headers) + " " + show_dec(d)
        elif c == "pipe":
            # decode, on decoder w[2], the last block produced by encoder w[1]
            d = decs[w[2]]
            blk = last.get(w[1])
            if blk is None:
                r = "skip " + show_dec(d)
            else:
                r = call(lambda: d.decode(blk, raw=(w[3] == "1")), show_headers) + " " + show_dec(d)
        else:
            r = "err:BADCOMMAND " + line.strip()
        out.write(r + "\n")
    out.close()


def hx_ba(b):
    # encode_integer returns a bytearray: canonical form is the bytes
    return hx(bytes(b)) if type(b) is bytearray else hx(b)


if __name__ == "__main__":
    main()
