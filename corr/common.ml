(* Shared by driver_m.ml and driver_g.ml: line-protocol glue over the EXTRACTED Coq definitions.  One command per input line, one canonical result line per
   command (see corr/harness.py for the protocol and the Python side that prints the same
   lines from the real implementation). *)
open BinNums

let fail s = prerr_endline ("driver: " ^ s); exit 2

(* ---- conversions (trusted glue) ---- *)
let byte_of_int (i : int) : Byte.byte = Obj.magic i          (* 256 constant constructors, in order *)
let int_of_byte (b : Byte.byte) : int = Obj.magic b
let hexv c = match c with
  | '0'..'9' -> Char.code c - 48 | 'a'..'f' -> Char.code c - 87 | 'A'..'F' -> Char.code c - 55
  | _ -> fail ("bad hex digit " ^ String.make 1 c)
let bytes_of_hex (s : string) : Byte.byte list =
  if s = "-" then [] else begin
    let n = String.length s in
    if n mod 2 <> 0 then fail "odd hex";
    let rec go i acc = if i < 0 then acc else go (i - 2) (byte_of_int (16 * hexv s.[i] + hexv s.[i+1]) :: acc) in
    go (n - 2) [] end
let hex_of_bytes (l : Byte.byte list) : string =
  if l = [] then "-" else begin
    let b = Buffer.create 64 in
    Stdlib.List.iter (fun x -> Buffer.add_string b (Printf.sprintf "%02x" (int_of_byte x))) l;
    Buffer.contents b end
(* positive <-> list of bits, least significant first *)
let rec pos_of_bits (l : bool list) : positive = match l with
  | [] -> fail "pos_of_bits" | [true] -> Coq_xH | [false] -> fail "leading zero"
  | true :: r -> Coq_xI (pos_of_bits r) | false :: r -> Coq_xO (pos_of_bits r)
let rec bits_of_pos (p : positive) : bool list = match p with
  | Coq_xH -> [true] | Coq_xI q -> true :: bits_of_pos q | Coq_xO q -> false :: bits_of_pos q
(* integers are written in hexadecimal, "-" prefix for negatives, e.g. 0, 1f, -a *)
let z_of_string (s : string) : coq_Z =
  let neg = String.length s > 0 && s.[0] = '-' in
  let s = if neg then String.sub s 1 (String.length s - 1) else s in
  let bits = ref [] in   (* msb first *)
  String.iter (fun c -> let v = hexv c in
    bits := !bits @ [v land 8 <> 0; v land 4 <> 0; v land 2 <> 0; v land 1 <> 0]) s;
  let rec strip l = match l with false :: r -> strip r | _ -> l in
  match strip !bits with
  | [] -> Z0
  | l -> let p = pos_of_bits (Stdlib.List.rev l) in if neg then Zneg p else Zpos p
let string_of_pos (p : positive) : string =
  let l = Stdlib.List.rev (bits_of_pos p) in          (* msb first *)
  let n = Stdlib.List.length l in
  let pad = (4 - n mod 4) mod 4 in
  let l = Stdlib.List.init pad (fun _ -> false) @ l in
  let b = Buffer.create 16 in
  let rec go l = match l with
    | a :: b1 :: c :: d :: r ->
        let v = (if a then 8 else 0) + (if b1 then 4 else 0) + (if c then 2 else 0) + (if d then 1 else 0) in
        Buffer.add_char b "0123456789abcdef".[v]; go r
    | [] -> () | _ -> fail "string_of_pos" in
  go l; Buffer.contents b
let string_of_z (z : coq_Z) : string = match z with
  | Z0 -> "0" | Zpos p -> string_of_pos p | Zneg p -> "-" ^ string_of_pos p
let z_of_int (i : int) : coq_Z = z_of_string (Printf.sprintf "%x" i)

(* ---- canonical printing ---- *)
let exn_name (e : Py.exn) = match e with
  | Py.HPACKDecodingError -> "HPACKDecodingError" | Py.InvalidTableIndex -> "InvalidTableIndex"
  | Py.OversizedHeaderListError -> "OversizedHeaderListError" | Py.InvalidTableSizeError -> "InvalidTableSizeError"
  | Py.ValueError -> "ValueError" | Py.IndexError -> "IndexError" | Py.UnicodeDecodeError -> "UnicodeDecodeError"
  | Py.TypeError -> "TypeError" | Py.OutOfFuel -> "OutOfFuel"
let out_str (show : 'a -> string) (r : 'a Py.outcome) = match r with
  | Py.Ok v -> "ok:" ^ show v | Py.Err e -> "err:" ^ exn_name e
let show_table (t : State.table) =
  Printf.sprintf "T max=%s cur=%s rz=%d ent=%s" (string_of_z t.State.maxsize) (string_of_z t.State.cursize)
    (if t.State.resized then 1 else 0)
    (String.concat "," (Stdlib.List.map (fun (n, v) -> hex_of_bytes n ^ ":" ^ hex_of_bytes v) t.State.entries))
let show_search r = match r with
  | None -> "none"
  | Some ((i, n), p) -> string_of_z i ^ "," ^ hex_of_bytes n ^ "," ^ (match p with None -> "none" | Some v -> hex_of_bytes v)
let zlist_as_bytes (l : coq_Z list) : string =
  if l = [] then "-" else String.concat "" (Stdlib.List.map (fun z ->
    match z with Z0 -> "00" | Zpos _ -> let s = string_of_z z in if String.length s = 1 then "0" ^ s else s
               | Zneg _ -> "??") l)

