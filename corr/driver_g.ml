(* Driver for the regenerated translation (G): the translator's own output is run too. *)
open BinNums
open Common

let gtables : (string, State.table) Hashtbl.t = Hashtbl.create 16
let gcoder = { State.hc_codes = GData.coq_REQUEST_CODES; State.hc_lens = GData.coq_REQUEST_CODES_LENGTH }
let get h k = try Hashtbl.find h k with Not_found -> fail ("no object " ^ k)
let init_table = { State.maxsize = GData.coq_DEFAULT_SIZE; State.cursize = Z0; State.resized = false; State.entries = [] }

let handle (w : string list) : string =
  match w with
  | ["enc_int"; "G"; n; p] -> out_str hex_of_bytes (GInt.encode_integer (z_of_string n) (z_of_string p))
  | ["dec_int"; "G"; d; p] ->
      out_str (fun (n, k) -> string_of_z n ^ "," ^ string_of_z k) (GInt.decode_integer (bytes_of_hex d) (z_of_string p))
  | ["henc"; "G"; d] -> out_str hex_of_bytes (GHuff.coq_HuffmanEncoder_encode gcoder (bytes_of_hex d))
  | ["hdec"; "G"; d] -> out_str hex_of_bytes (GHuff.decode_huffman (bytes_of_hex d))
  | ["tnew"; "G"; id] -> Hashtbl.replace gtables id init_table; "ok " ^ show_table init_table
  | ["tadd"; "G"; id; n; v] ->
      let (r, s) = GTable.coq_HeaderTable_add (get gtables id) (bytes_of_hex n) (bytes_of_hex v) in
      Hashtbl.replace gtables id s; out_str (fun () -> "") r ^ " " ^ show_table s
  | ["tset"; "G"; id; m] ->
      let (r, s) = GTable.coq_HeaderTable_set_maxsize (get gtables id) (z_of_string m) in
      Hashtbl.replace gtables id s; out_str (fun () -> "") r ^ " " ^ show_table s
  | ["tget"; "G"; id; i] ->
      out_str (fun (n, v) -> hex_of_bytes n ^ ":" ^ hex_of_bytes v) (GTable.coq_HeaderTable_get_by_index (get gtables id) (z_of_string i))
  | ["tsearch"; "G"; id; n; v] ->
      out_str show_search (GTable.coq_HeaderTable_search (get gtables id) (bytes_of_hex n) (bytes_of_hex v))
  | _ -> fail ("bad command: " ^ String.concat " " w)

let () =
  try
    while true do
      let line = input_line stdin in
      if line <> "" && line.[0] <> '#' then begin
        let w = Stdlib.List.filter (fun s -> s <> "") (String.split_on_char ' ' line) in
        print_endline (handle w)
      end
    done
  with End_of_file -> ()
