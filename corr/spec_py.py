"""Generator-side RFC 7541 helpers, independent of /repo: the constants are read from the
Coq specification files (Spec/HuffmanCode.v, Spec/StaticTable.v), never from hpack.

Used only to GENERATE inputs (well-formed blocks with chosen representations, corruptions)
and to evaluate simple oracles; verdicts on RFC meaning come from the extracted Coq Spec.
"""
import os
import re

COQ = os.path.join(os.path.dirname(os.path.abspath(__file__)), "..", "coq")


def _load_codes():
    txt = open(os.path.join(COQ, "Spec", "HuffmanCode.v")).read()
    body = txt[txt.index("Definition appendix_b"):]
    body = body[:body.index("].")]
    pairs = re.findall(r"\((\d+), (\d+)\)", body)
    assert len(pairs) == 257, len(pairs)
    return [(int(c), int(l)) for c, l in pairs]


def _load_static():
    txt = open(os.path.join(COQ, "Spec", "StaticTable.v")).read()
    body = txt[txt.index("Definition static_table"):]
    rows = re.findall(r"\(\[([^\]]*)\], \[([^\]]*)\]\)", body)
    assert len(rows) == 61, len(rows)

    def bs(s):
        return bytes(int(x.strip()[len("Byte.x"):], 16) for x in s.split(";") if x.strip())
    return [(bs(a), bs(b)) for a, b in rows]


CODES = _load_codes()
STATIC = _load_static()


def int_enc(n, N, hi=0, redundant=0):
    """5.1 encoding of n with an N-bit prefix; `hi` are the bits above the prefix of the first
    octet; `redundant` extra zero continuation groups (legal non-minimal form)."""
    mx = (1 << N) - 1
    if n < mx and redundant == 0:
        return bytes([hi | n])
    if n < mx:
        # a value below the prefix maximum has only one form
        return bytes([hi | n])
    out = [hi | mx]
    n -= mx
    groups = []
    while n >= 128:
        groups.append(n % 128)
        n //= 128
    groups.append(n)
    groups += [0] * redundant
    for g in groups[:-1]:
        out.append(g + 128)
    out.append(groups[-1])
    return bytes(out)


def huff_bits(s):
    return "".join(format(CODES[b][0], "0%db" % CODES[b][1]) for b in s)


def huff_enc(s):
    bits = huff_bits(s)
    bits += "1" * ((8 - len(bits) % 8) % 8)
    return bytes(int(bits[i:i + 8], 2) for i in range(0, len(bits), 8))


def bits_to_bytes(bits):
    assert len(bits) % 8 == 0
    return bytes(int(bits[i:i + 8], 2) for i in range(0, len(bits), 8))


def str_enc(s, huffman=False, redundant=0):
    p = huff_enc(s) if huffman else s
    return int_enc(len(p), 7, 0x80 if huffman else 0, redundant) + p


def esize(n, v):
    return 32 + len(n) + len(v)


def fit(m, entries):
    """longest prefix (newest first) whose total size is <= m"""
    out, tot = [], 0
    for n, v in entries:
        tot += esize(n, v)
        if tot > m:
            break
        out.append((n, v))
    return out


def lookup(i, dyn):
    if 1 <= i <= 61:
        return STATIC[i - 1]
    if i >= 62 and i - 62 < len(dyn):
        return dyn[i - 62]
    return None


class Ctx:
    """decoder-side context simulation used by the block writer"""

    def __init__(self, size=4096, limit=4096):
        self.dyn, self.size, self.limit = [], size, limit

    def copy(self):
        c = Ctx(self.size, self.limit)
        c.dyn = list(self.dyn)
        return c

    def insert(self, n, v):
        self.dyn = fit(self.size, [(n, v)] + self.dyn)

    def resize(self, m):
        self.size = m
        self.dyn = fit(m, self.dyn)

    def addressable(self):
        return [(i + 1, e) for i, e in enumerate(STATIC)] + [(62 + i, e) for i, e in enumerate(self.dyn)]


def rep_indexed(i, redundant=0):
    return int_enc(i, 7, 0x80, redundant)


def rep_literal(mode, name, value, name_index=0, hn=False, hv=False, redundant=0):
    """mode: 'inc' (01, 6-bit), 'no' (0000, 4-bit), 'never' (0001, 4-bit)"""
    hi, N = {"inc": (0x40, 6), "no": (0x00, 4), "never": (0x10, 4)}[mode]
    out = int_enc(name_index, N, hi, redundant if name_index >= (1 << N) - 1 else 0)
    if name_index == 0:
        out += str_enc(name, hn, redundant)
    out += str_enc(value, hv, redundant)
    return out


def rep_size(n, redundant=0):
    return int_enc(n, 5, 0x20, redundant)


def parse_reps(data, max_reps=100000):
    """Syntactic split of a block into representations (no table needed):
    ('idx', i) | ('lit', mode, name_index, name_or_None(raw payload, huffman flag), value(payload, flag)) | ('size', n).
    Returns (reps, error_or_None).  Used by oracles on the real Encoder's output."""
    def dint(pos, N):
        if pos >= len(data):
            raise ValueError("truncated")
        v = data[pos] & ((1 << N) - 1)
        pos += 1
        if v < (1 << N) - 1:
            return v, pos
        shift = 0
        while True:
            if pos >= len(data):
                raise ValueError("truncated")
            b = data[pos]
            pos += 1
            v += (b & 127) << shift
            shift += 7
            if b < 128:
                return v, pos

    def dstr(pos):
        if pos >= len(data):
            raise ValueError("truncated")
        h = bool(data[pos] & 0x80)
        n, pos = dint(pos, 7)
        if pos + n > len(data):
            raise ValueError("truncated string")
        return (data[pos:pos + n], h), pos + n

    reps, pos = [], 0
    try:
        while pos < len(data) and len(reps) < max_reps:
            b = data[pos]
            if b & 0x80:
                i, pos = dint(pos, 7)
                reps.append(("idx", i))
            elif b & 0x40 or not (b & 0x20):
                mode, N = ("inc", 6) if b & 0x40 else (("never", 4) if b & 0x10 else ("no", 4))
                i, pos = dint(pos, N)
                name = None
                if i == 0:
                    name, pos = dstr(pos)
                value, pos = dstr(pos)
                reps.append(("lit", mode, i, name, value))
            else:
                n, pos = dint(pos, 5)
                reps.append(("size", n))
    except ValueError as e:
        return reps, str(e)
    return reps, None
